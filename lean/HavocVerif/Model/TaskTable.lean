import HavocVerif.Model.Payload
import HavocVerif.Model.Utf16
import HavocVerif.Model.Builder
import HavocVerif.Gen.Consts
import HavocVerif.Gen.DemonHandlers
/-
  What the Demon must obtain for an operator command (C02): for a set of operator commands, the Demon
  handler that serves it, the case of its switch, and - as a function of the operator's parameters - the
  values the handler's reads must yield.  The handler's reads themselves, the dispatch table and the
  numeric values of the defines are regenerated from the Demon's sources (Gen.DemonHandlers, Gen.Consts.demon).
-/
namespace Havoc.TaskTable
open Havoc

def kindOf : String → Option CKind
  | "ParserGetInt32" => some .int32
  | "ParserGetBool" => some .bool
  | "ParserGetInt64" => some .int64
  | "ParserGetInt16" => some .int16
  | "ParserGetByte" => some .byte
  | "ParserGetWString" | "ParserGetBytes" | "ParserGetString" => some .bytes
  | _ => none

/-- code points of a UTF-8 string -/
def scalars (utf8 : Bytes) : Option (List Nat) :=
  (String.fromUTF8? (ByteArray.mk utf8.toArray)).map fun s => s.toList.map Char.toNat

/-- a wide string parameter as the Demon gets it: UTF-16LE with a terminating NUL (none is added to a
    string that ends in NUL already) -/
def wstr (utf8 : Bytes) : Option CVal :=
  (scalars utf8).map fun cs => .bytes (encodeUTF16LE (if cs.getLast? == some 0 then cs else cs ++ [0]))

def decNat (b : Bytes) : Option Nat := (String.fromUTF8? (ByteArray.mk b.toArray)).bind String.toNat?
def hexNat (b : Bytes) : Option Nat :=
  (String.fromUTF8? (ByteArray.mk b.toArray)).bind fun s =>
    if s.isEmpty then none else s.toList.foldlM (fun acc c =>
      if c.isDigit then some (acc * 16 + (c.toNat - 48))
      else if 'a' ≤ c ∧ c ≤ 'f' then some (acc * 16 + (c.toNat - 87))
      else if 'A' ≤ c ∧ c ≤ 'F' then some (acc * 16 + (c.toNat - 55)) else none) 0

structure Entry where
  name : String            -- the command as the harness line names it
  handler : String         -- the Demon function that serves it
  case_ : String           -- the case of its switch ("" = no sub-commands)
  expect : List Bytes → Option (List CVal)   -- operator parameters ↦ what the reads after the sub-command yield

def i32 (b : Bytes) : Option CVal := (decNat b).map fun n => .int32 (n % 4294967296)

/-- `0x3e7` / `3e7`: base 16 either way -/
def luid (b : Bytes) : Option Nat :=
  let b' := match b with | 48 :: 120 :: r => r | r => r
  (hexNat b').map (· % 4294967296)

def flag : List Bytes → Option (List CVal)
  | [p] => some [.int32 (if p == "true".toUTF8.toList then 1 else 0)]
  | _ => none

def table : List Entry := [
  ⟨"sleep", "CommandSleep", "", fun ps => match ps with | [d, j] => do pure [← i32 d, ← i32 j] | _ => none⟩,
  ⟨"fs.cd", "CommandFS", "DEMON_COMMAND_FS_CD", fun ps => match ps with | [p] => (wstr p).map ([·]) | _ => none⟩,
  ⟨"fs.remove", "CommandFS", "DEMON_COMMAND_FS_REMOVE", fun ps => match ps with | [p] => (wstr p).map ([·]) | _ => none⟩,
  ⟨"fs.mkdir", "CommandFS", "DEMON_COMMAND_FS_MKDIR", fun ps => match ps with | [p] => (wstr p).map ([·]) | _ => none⟩,
  ⟨"fs.download", "CommandFS", "DEMON_COMMAND_FS_DOWNLOAD", fun ps => match ps with | [p] => (wstr p).map ([·]) | _ => none⟩,
  ⟨"fs.cat", "CommandFS", "DEMON_COMMAND_FS_CAT", fun ps => match ps with | [p] => (wstr p).map ([·]) | _ => none⟩,
  ⟨"fs.cp", "CommandFS", "DEMON_COMMAND_FS_COPY", fun ps => match ps with | [a, b] => do pure [← wstr a, ← wstr b] | _ => none⟩,
  ⟨"fs.mv", "CommandFS", "DEMON_COMMAND_FS_MOVE", fun ps => match ps with | [a, b] => do pure [← wstr a, ← wstr b] | _ => none⟩,
  ⟨"fs.pwd", "CommandFS", "DEMON_COMMAND_FS_GET_PWD", fun ps => if ps.isEmpty then some [] else none⟩,
  -- upload: the path (the operator's client sends it with a terminator of its own), then the id of the in-memory file
  -- that carries the content (checked separately: `uploadOk`)
  ⟨"fs.upload", "CommandFS", "DEMON_COMMAND_FS_UPLOAD", fun ps => match ps with
    | [p, _] => (wstr p).map fun w => match w with | .bytes b => [.bytes (b ++ [0, 0])] | v => [v]
    | _ => none⟩,
  ⟨"proc.kill", "CommandProc", "DEMON_COMMAND_PROC_KILL", fun ps => match ps with | [p] => (i32 p).map ([·]) | _ => none⟩,
  ⟨"proc.modules", "CommandProc", "DEMON_COMMAND_PROC_MODULES", fun ps => match ps with | [p] => (i32 p).map ([·]) | _ => none⟩,
  ⟨"proc.grep", "CommandProc", "DEMON_COMMAND_PROC_GREP", fun ps => match ps with | [p] => (wstr p).map ([·]) | _ => none⟩,
  ⟨"job.list", "CommandJob", "DEMON_COMMAND_JOB_LIST", fun ps => if ps.isEmpty then some [] else none⟩,
  ⟨"job.suspend", "CommandJob", "DEMON_COMMAND_JOB_SUSPEND", fun ps => match ps with | [p] => (i32 p).map ([·]) | _ => none⟩,
  ⟨"job.resume", "CommandJob", "DEMON_COMMAND_JOB_RESUME", fun ps => match ps with | [p] => (i32 p).map ([·]) | _ => none⟩,
  ⟨"job.kill", "CommandJob", "DEMON_COMMAND_JOB_KILL_REMOVE", fun ps => match ps with | [p] => (i32 p).map ([·]) | _ => none⟩,
  ⟨"token.impersonate", "CommandToken", "DEMON_COMMAND_TOKEN_IMPERSONATE", fun ps => match ps with | [p] => (i32 p).map ([·]) | _ => none⟩,
  ⟨"token.remove", "CommandToken", "DEMON_COMMAND_TOKEN_REMOVE", fun ps => match ps with | [p] => (i32 p).map ([·]) | _ => none⟩,
  ⟨"pivot.connect", "CommandPivot", "DEMON_PIVOT_SMB_CONNECT", fun ps => match ps with | [p] => (wstr p).map ([·]) | _ => none⟩,
  ⟨"pivot.disconnect", "CommandPivot", "DEMON_PIVOT_SMB_DISCONNECT", fun ps => match ps with | [p] => (hexNat p).map fun n => [.int32 (n % 4294967296)] | _ => none⟩,
  ⟨"transfer.list", "CommandTransfer", "DEMON_COMMAND_TRANSFER_LIST", fun ps => if ps.isEmpty then some [] else none⟩,
  ⟨"transfer.stop", "CommandTransfer", "DEMON_COMMAND_TRANSFER_STOP", fun ps => match ps with | [p] => (hexNat p).map fun n => [.int32 (n % 4294967296)] | _ => none⟩,
  ⟨"transfer.resume", "CommandTransfer", "DEMON_COMMAND_TRANSFER_RESUME", fun ps => match ps with | [p] => (hexNat p).map fun n => [.int32 (n % 4294967296)] | _ => none⟩,
  ⟨"transfer.remove", "CommandTransfer", "DEMON_COMMAND_TRANSFER_REMOVE", fun ps => match ps with | [p] => (hexNat p).map fun n => [.int32 (n % 4294967296)] | _ => none⟩,
  ⟨"exit.thread", "CommandExit", "", fun ps => if ps.isEmpty then some [.int32 1] else none⟩,
  ⟨"exit.process", "CommandExit", "", fun ps => if ps.isEmpty then some [.int32 2] else none⟩,
  ⟨"proclist", "CommandProcList", "", fun ps => match ps with | [p] => some [.int32 (if p == "true".toUTF8.toList then 1 else 0)] | _ => none⟩,
  -- config: switches are 1 for the text "true" and 0 otherwise; numbers as written; the working hours packed into one
  -- word as the Demon's InWorkingHours unpacks them (the builder's packing, Model/Builder.lean); kill date 0 = none
  ⟨"config.verbose", "CommandConfig", "DEMON_CONFIG_IMPLANT_VERBOSE", flag⟩,
  ⟨"config.coffee.veh", "CommandConfig", "DEMON_CONFIG_IMPLANT_COFFEE_VEH", flag⟩,
  ⟨"config.coffee.threaded", "CommandConfig", "DEMON_CONFIG_IMPLANT_COFFEE_THREADED", flag⟩,
  ⟨"config.sleep-technique", "CommandConfig", "DEMON_CONFIG_IMPLANT_SLEEP_TECHNIQUE", fun ps => match ps with | [p] => (i32 p).map ([·]) | _ => none⟩,
  ⟨"config.memory.alloc", "CommandConfig", "DEMON_CONFIG_MEMORY_ALLOC", fun ps => match ps with | [p] => (i32 p).map ([·]) | _ => none⟩,
  ⟨"config.memory.execute", "CommandConfig", "DEMON_CONFIG_MEMORY_EXECUTE", fun ps => match ps with | [p] => (i32 p).map ([·]) | _ => none⟩,
  ⟨"config.inject.technique", "CommandConfig", "DEMON_CONFIG_INJECTION_TECHNIQUE", fun ps => match ps with | [p] => (i32 p).map ([·]) | _ => none⟩,
  ⟨"config.spawn64", "CommandConfig", "DEMON_CONFIG_INJECTION_SPAWN64", fun ps => match ps with | [p] => (wstr p).map ([·]) | _ => none⟩,
  ⟨"config.spawn32", "CommandConfig", "DEMON_CONFIG_INJECTION_SPAWN32", fun ps => match ps with | [p] => (wstr p).map ([·]) | _ => none⟩,
  ⟨"config.killdate", "CommandConfig", "DEMON_CONFIG_KILLDATE", fun ps => match ps with | [p] => if p == [48] then some [.int64 0] else none | _ => none⟩,   -- [48] = the text "0"
  -- kerberos: a logon session id is hexadecimal text, with or without "0x" in front
  ⟨"kerb.luid", "CommandKerberos", "KERBEROS_COMMAND_LUID", fun ps => if ps.isEmpty then some [] else none⟩,
  ⟨"kerb.klist", "CommandKerberos", "KERBEROS_COMMAND_KLIST", fun ps => match ps with | [l] => (luid l).map fun n => [.int32 1, .int32 n] | _ => none⟩,
  ⟨"kerb.purge", "CommandKerberos", "KERBEROS_COMMAND_PURGE", fun ps => match ps with | [l] => (luid l).map fun n => [.int32 n] | _ => none⟩,
  ⟨"kerb.ptt", "CommandKerberos", "KERBEROS_COMMAND_PTT", fun ps => match ps with | [t, l] => (luid l).map fun n => [.bytes t, .int32 n] | _ => none⟩,
  ⟨"config.workinghours", "CommandConfig", "DEMON_CONFIG_WORKINGHOURS", fun ps => match ps with
    | [p] => if p == [48] then some [.int32 0] else (hoursWord (p.map (·.toNat))).map fun w => [.int32 w]
    | _ => none⟩
]

def find (name : String) : Option Entry := table.find? (·.name == name)

/-- the command id the frame must carry: the define the Demon's dispatch table maps to the handler -/
def Entry.commandId (e : Entry) : Option Nat :=
  (Gen.DemonHandlers.dispatch.find? (·.2 == e.handler)).bind fun (d, _) => Gen.Consts.demon.lookup d

/-- the reads of the handler for this entry: those before the switch, then those of the case -/
def Entry.readNames (e : Entry) : Option (List String) :=
  match Gen.DemonHandlers.reads.find? (fun r => r.1 == e.handler && r.2.1 == ""), e.case_ with
  | some pre, "" => some pre.2.2
  | some pre, c => (Gen.DemonHandlers.reads.find? (fun r => r.1 == e.handler && r.2.1 == c)).map fun cs => pre.2.2 ++ cs.2.2
  | none, _ => none

def Entry.kinds (e : Entry) : Option (List CKind) := e.readNames.bind fun ns => ns.mapM kindOf

/-- what the handler must read: the sub-command number (when there is a switch), then the parameters -/
def Entry.expected (e : Entry) (params : List Bytes) : Option (List CVal) :=
  match e.case_ with
  | "" => e.expect params
  | c => do
    let n ← Gen.Consts.demon.lookup c
    let vs ← e.expect params
    pure (.int32 n :: vs)

/-- Spec of one prepared task: the frame carries the command that reaches this handler and the request id
    the operator was told, and the handler's reads on the body yield the operator's parameters -/
def taskOk (e : Entry) (params : List Bytes) (taskId : Nat) (t : Task) : Bool :=
  match e.commandId, e.kinds, e.expected params with
  | some cid, some ks, some want =>
    t.command == cid && t.requestId == taskId % 4294967296 &&
      (match demonRead ks t.body with
       | some (vs, _) => vs.take want.length == want     -- (an upload's last read, the id of its in-memory file, is checked by `uploadOk`)
       | none => false)
  | _, _, _ => false

/-- the in-memory file a task refers to, as the Demon assembles it from the `COMMAND_MEM_FILE` tasks that precede
    the task (CommandMemFile: id, total size, chunk): `none` when no chunk with that id was delivered -/
def memFile (kinds : List CKind) (memCmd id : Nat) (ts : List Task) : Option (Nat × Bytes) :=
  let chunks := ts.filterMap fun t =>
    if t.command == memCmd then
      match demonRead kinds t.body with
      | some ([.int32 i, .int64 sz, .bytes b], _) => if i == id then some (sz, b) else none
      | _ => none
    else none
  match chunks with
  | [] => none
  | (sz, _) :: _ => some (sz, (chunks.map (·.2)).flatten)

/-- Spec of an upload: the FS task names the operator's path and an in-memory file that was delivered before it,
    complete, with exactly the operator's content - also when the content is empty -/
def uploadOk (content : Bytes) (ts : List Task) : Bool :=
  match ts.getLast?, (Gen.DemonHandlers.reads.find? (fun r => r.1 == "CommandMemFile" && r.2.1 == "")).bind (fun r => r.2.2.mapM kindOf),
        Gen.Consts.demon.lookup "DEMON_COMMAND_MEM_FILE" with
  | some t, some mk, some memCmd =>
    match demonRead [.int32, .bytes, .int32] t.body with
    | some ([_, _, .int32 id], _) =>
      match memFile mk memCmd id ts.dropLast with
      | some (sz, data) => sz == content.length && data == content
      | none => false
    | _ => false
  | _, _, _ => false

end Havoc.TaskTable
