/-
  Model of the admission logic of an HTTP listener: `(*HTTP).request` and the routes set
  up in `(*HTTP).Start` (teamserver/pkg/handlers/http.go).  Strings are `List Char`
  (kernel-reducible); header names compare case-insensitively as net/http canonicalises them.
-/
namespace Havoc

abbrev Str := List Char

def lowerC (c : Char) : Char := if 'A' ≤ c ∧ c ≤ 'Z' then Char.ofNat (c.toNat + 32) else c
def lowerS (s : Str) : Str := s.map lowerC
def eqFold (a b : Str) : Bool := lowerS a == lowerS b

/-- `strings.SplitN(s, ": ", 2)`: name and value at the first ": " -/
def splitColonSpace : Str → Option (Str × Str)
  | [] => none
  | ':' :: ' ' :: rest => some ([], rest)
  | c :: rest => (splitColonSpace rest).map fun (n, v) => (c :: n, v)

/-- `strings.SplitN(s, ":", 2)` -/
def splitColon : Str → Option (Str × Str)
  | [] => none
  | ':' :: rest => some ([], rest)
  | c :: rest => (splitColon rest).map fun (n, v) => (c :: n, v)

def trimS (s : Str) : Str :=
  ((s.dropWhile (· == ' ')).reverse.dropWhile (· == ' ')).reverse

structure HttpConfig where
  uris : List Str
  headers : List Str          -- "Name: value"
  userAgent : Str
  respHeaders : List Str      -- "Name: value"
  behindRedir : Bool

structure HttpReq where
  method : Str
  requestUri : Str            -- path incl. query, as received
  headers : List (Str × Str)  -- as sent
  peerHost : Str              -- host part of the TCP peer address

/-- `ctx.Request.Header.Get(name)`: first value of the header, "" when absent -/
def HttpReq.get (r : HttpReq) (name : Str) : Str :=
  ((r.headers.find? fun (n, _) => eqFold n name).map (·.2)).getD []

def ignoredHeader (name : Str) : Bool := eqFold name "Connection".toList || eqFold name "Accept-Encoding".toList

/-- the configured request headers that are checked: those of the form "Name: value" that are not ignored -/
def checkedHeaders (cfg : HttpConfig) : List (Str × Str) :=
  cfg.headers.filterMap fun h => match splitColonSpace h with
    | some (n, v) => if ignoredHeader n then none else some (n, v)
    | none => none

def headersOk (cfg : HttpConfig) (r : HttpReq) : Bool :=
  (checkedHeaders cfg).all fun (n, v) => eqFold (r.get n) v

def urisConfigured (cfg : HttpConfig) : Bool := cfg.uris.length > 0 ∧ ¬ (cfg.uris = [[]])

def uriOk (cfg : HttpConfig) (r : HttpReq) : Bool := !urisConfigured cfg || cfg.uris.contains r.requestUri

def uaOk (cfg : HttpConfig) (r : HttpReq) : Bool := cfg.userAgent == [] || cfg.userAgent == r.get "User-Agent".toList

/-- does the request reach `parseAgentRequest`? -/
def admits (cfg : HttpConfig) (r : HttpReq) : Bool :=
  r.method == "POST".toList && headersOk cfg r && uriOk cfg r && uaOk cfg r

/-! ### `(*HTTP).request` statement by statement (the lines of `Gen.HttpGate`) -/

/-- the loop over `h.Config.Headers`: `valid` after it (`break` at the first mismatch) -/
def headerLoopGo (r : HttpReq) : List Str → Bool
  | [] => true
  | h :: hs =>
    match splitColonSpace h with                              -- NameValue := strings.SplitN(Header, ": ", 2); len(NameValue) > 1
    | some (n, v) =>
      if ignoredHeader n then headerLoopGo r hs               -- ignore == true
      else if lowerS (r.get n) != lowerS v then false         -- valid = false; break
      else headerLoopGo r hs
    | none => headerLoopGo r hs

/-- the loop over `h.Config.Uris`: `valid` after it -/
def uriLoopGo (uri : Str) : List Str → Bool
  | [] => false
  | u :: us => if uri == u then true else uriLoopGo uri us

inductive HttpOutcome where
  | fake404      -- the decoy page, the body is never looked at
  | parsed       -- response headers set, body handed to parseAgentRequest
  deriving DecidableEq, Repr

/-- the body of `request` down to the call of `parseAgentRequest`, guard by guard -/
def requestGo (cfg : HttpConfig) (r : HttpReq) : HttpOutcome :=
  if headerLoopGo r cfg.headers == false then .fake404
  else if (cfg.uris.length > 0 && !(cfg.uris.length == 1 && cfg.uris.head? == some [])) && !(uriLoopGo r.requestUri cfg.uris) then .fake404
  else if cfg.userAgent != [] && cfg.userAgent != r.get "User-Agent".toList then .fake404
  else .parsed

/-- the routes of `Start`: POST goes to `request`, GET and every other method to the decoy -/
def serveGo (cfg : HttpConfig) (r : HttpReq) : HttpOutcome :=
  if r.method == "POST".toList then requestGo cfg r else .fake404

/-- response headers added to every admitted answer -/
def responseHeaders (cfg : HttpConfig) : List (Str × Str) :=
  cfg.respHeaders.filterMap fun h => (splitColon h).map fun (n, v) => (trimS n, trimS v)

/-- the address recorded for a new agent -/
def senderAddress (cfg : HttpConfig) (r : HttpReq) : Str :=
  if cfg.behindRedir then r.get "X-Forwarded-For".toList else r.peerHost

end Havoc
