/-
  Reference semantics of yaotl (HCL native syntax) expressions and templates:
  hclsyntax/expression.go, expression_ops.go, expression_template.go, yaotl/ops.go (Index, GetAttr)
  over cty values.  Numbers are exact integers here (division is defined when it is exact; an
  inexact quotient is reported as `inexact`, which the driver does not compare).
-/
namespace Havoc.Hx

inductive BinOp where
  | or | and | eq | ne | lt | le | gt | ge | add | sub | mul | div | mod
  deriving DecidableEq, Repr

inductive E where
  | num (n : Int)
  | bool (b : Bool)
  | null
  | str (s : String)
  | var (name : String)
  | neg (e : E)
  | not (e : E)
  | bin (op : BinOp) (l r : E)
  | cond (c t f : E)
  | tuple (es : List E)
  | obj (items : List (String × E))
  | index (e i : E)
  | attr (e : E) (name : String)
  | forE (k : Option String) (v : String) (coll : E) (keyE : Option E) (body : E) (filter : Option E) (group : Bool)
      -- `[for k, v in coll : body if filter]`, or with `keyE`: `{for k, v in coll : keyE => body... if filter}`
  | anon                           -- the element a splat is working on
  | splat (src each : E)           -- `src[*]…` / `src.*…`: `each` is the traversal, applied to `anon`
  | tmplS (parts : List E)         -- the body of a template directive: always a string, also with a single interpolation
  | join (e : E)                   -- `%{ for … }body%{ endfor }`: the iteration results, concatenated
  | tmpl (parts : List E)          -- a quoted template: literal parts are `str`, the others interpolations
  | strip (l r : Bool) (e : E)     -- an interpolation written `${~ e ~}`: which strip markers it carries
  | call (name : String) (args : List E) (expand : Bool)   -- `name(args)`; with `expand`: `name(args...)`
  | heredoc (flush : Bool) (parts : List E)
      -- `<<EOT` / `<<-EOT`: the template tokens as the scanner yields them (a literal never spans a line end)
  deriving Repr

/-- static type of a result as far as conditionals care -/
inductive Ty where
  | num | bool | str
  | dyn        -- nothing known (a failed lookup, index, attribute …) or a literal null
  | other      -- a collection
  deriving DecidableEq, Repr

inductive V where
  | num (n : Int)
  | bool (b : Bool)
  | null
  | str (s : String)
  | tuple (vs : List V)
  | obj (items : List (String × V))   -- sorted by key
  | listv (vs : List V)               -- a value of a list type (only variables have one)
  | mapv (items : List (String × V))  -- a value of a map type, sorted by key
  | tnull (t : Ty)                    -- a null of a known type: a literal null that a conditional converted to its other result's type
  deriving Repr

inductive Res where
  | ok (v : V)
  | err (t : Ty)       -- an error diagnostic; the (unknown) result still has this type
  | inexact            -- a non-integer number is involved: outside this model
  deriving Repr

def Res.isErr : Res → Bool
  | .err _ => true
  | _ => false

mutual
  def V.beq : V → V → Bool
    | .num a, .num b => a == b
    | .bool a, .bool b => a == b
    | .null, .null | .null, .tnull _ | .tnull _, .null | .tnull _, .tnull _ => true
    | .str a, .str b => a == b
    | .tuple a, .tuple b => V.beqList a b
    | .obj a, .obj b => V.beqItems a b
    | .listv a, .listv b => V.beqList a b       -- values of different types are never equal: a list is not a tuple
    | .mapv a, .mapv b => V.beqItems a b
    | _, _ => false
  def V.beqList : List V → List V → Bool
    | [], [] => true
    | a :: as, b :: bs => V.beq a b && V.beqList as bs
    | _, _ => false
  def V.beqItems : List (String × V) → List (String × V) → Bool
    | [], [] => true
    | (k, a) :: as, (k', b) :: bs => k == k' && V.beq a b && V.beqItems as bs
    | _, _ => false
end

/-- string → number conversion (cty convert): an optional minus sign and decimal digits -/
def strToInt (s : String) : Option Int :=
  let cs := s.toList
  let (neg, ds) := match cs with
    | '-' :: r => (true, r)
    | r => (false, r)
  if ds.isEmpty || !ds.all Char.isDigit then none
  else
    let v : Nat := ds.foldl (fun acc c => acc * 10 + (c.toNat - 48)) 0
    some (if neg then -(v : Int) else (v : Int))

def asNum : V → Option Int
  | .num n => some n
  | .str s => strToInt s
  | _ => none

def asBool : V → Option Bool
  | .bool b => some b
  | .str "true" => some true
  | .str "false" => some false
  | _ => none

def intToStr (n : Int) : String := toString n

/-- what a template interpolation turns a value into -/
def asTmplStr : V → Option String
  | .str s => some s
  | .num n => some (intToStr n)
  | .bool b => some (if b then "true" else "false")
  | _ => none

def insertItem (k : String) (v : V) : List (String × V) → List (String × V)
  | [] => [(k, v)]
  | (k', v') :: rest =>
    if k < k' then (k, v) :: (k', v') :: rest
    else if k == k' then (k, v) :: rest       -- a later definition of the same key wins
    else (k', v') :: insertItem k v rest

def arith (op : BinOp) (a b : Int) : Res :=
  match op with
  | .add => .ok (.num (a + b))
  | .sub => .ok (.num (a - b))
  | .mul => .ok (.num (a * b))
  | .div => if b = 0 then (if a = 0 then .err .num else .inexact)      -- x/0 is an infinity, 0/0 an error
            else if a % b = 0 then .ok (.num (a / b)) else .inexact
  | .mod => if b = 0 then .ok (.num a) else .ok (.num (Int.tmod a b))     -- the sign follows the dividend; x % 0 is x
  | .lt => .ok (.bool (a < b))
  | .le => .ok (.bool (a ≤ b))
  | .gt => .ok (.bool (a > b))
  | .ge => .ok (.bool (a ≥ b))
  | _ => .err .dyn

def BinOp.ty : BinOp → Ty
  | .add | .sub | .mul | .div | .mod => .num
  | _ => .bool

def binop (op : BinOp) (a b : V) : Res :=
  match op with
  | .eq => .ok (.bool (V.beq a b))
  | .ne => .ok (.bool (!V.beq a b))
  | .and | .or =>
    match asBool a, asBool b with
    | some x, some y => .ok (.bool (if op = .and then x && y else x || y))
    | _, _ => .err .bool
  | _ =>
    match asNum a, asNum b with
    | some x, some y => arith op x y
    | _, _ => .err op.ty

def V.ty : V → Ty
  | .num _ => .num
  | .bool _ => .bool
  | .str _ => .str
  | .null => .dyn
  | .tnull t => t
  | _ => .other

def Res.ty : Res → Ty
  | .ok v => v.ty
  | .err t => t
  | .inexact => .num

/-- the type both results of a conditional are converted to; `none`: inconsistent -/
def unifyTy : Ty → Ty → Option Ty
  | .dyn, t | t, .dyn => some t
  | .num, .num => some .num
  | .bool, .bool => some .bool
  | .str, .str => some .str
  | .num, .str | .str, .num | .bool, .str | .str, .bool => some .str
  | .num, .bool | .bool, .num => none
  | _, _ => some .other

/-- conversion of the chosen result to the unified type -/
def convTo (t : Ty) (v : V) : V :=
  match t, v with
  | .str, .num n => .str (toString n)
  | .str, .bool b => .str (if b then "true" else "false")
  | .dyn, v => v
  | t, .null | t, .tnull _ => .tnull t          -- a null takes the type it is converted to
  | _, v => v

def V.isNull : V → Bool
  | .null | .tnull _ => true
  | _ => false

/-- a literal `null`: a null of no type -/
def Res.isDynNull : Res → Bool
  | .ok .null => true
  | _ => false

/-- ConditionalExpr.Value, the choice of the result type from the two results:
    a literal null takes the other result's type; when either type is unknown nothing is converted
    and the result type stays unknown; otherwise both are unified.  `none`: inconsistent. -/
def condType (tr fr : Res) : Option Ty :=
  if tr.isDynNull then some fr.ty
  else if fr.isDynNull then some tr.ty
  else if tr.ty == .dyn || fr.ty == .dyn then some .dyn
  else unifyTy tr.ty fr.ty

def indexV (c k : V) : Res :=
  match c with
  | .tuple vs | .listv vs =>
    match asNum k with
    | some i => if 0 ≤ i ∧ i.toNat < vs.length then .ok (vs.getD i.toNat .null) else .err .dyn
    | none => .err .dyn
  | .obj items | .mapv items =>
    match asTmplStr k with
    | some key => match items.lookup key with
      | some v => .ok v
      | none => .err .dyn
    | none => .err .dyn
  | _ => .err .dyn

def attrV (c : V) (name : String) : Res :=
  match c with
  | .obj items | .mapv items => match items.lookup name with
    | some v => .ok v
    | none => .err .dyn
  | _ => .err .dyn

def isSpaceC (c : Char) : Bool := c == ' ' || c == '\n' || c == '\t' || c == '\r' || c.toNat == 0x0B || c.toNat == 0x0C || c.toNat == 0x85 || c.toNat == 0xA0

def trimLeft (s : String) : String := String.ofList (s.toList.dropWhile isSpaceC)
def trimRight (s : String) : String := String.ofList ((s.toList.reverse.dropWhile isSpaceC).reverse)

def E.rightMarker : E → Bool
  | .strip _ r _ => r
  | _ => false
def E.leftMarker : E → Bool
  | .strip l _ _ => l
  | _ => false
def E.unstrip : E → E
  | .strip _ _ e => e
  | e => e

/-- strip markers: a `~}` trims the leading blanks of the literal IMMEDIATELY after it, a `${~` the
    trailing blanks of the literal immediately before it; nothing else is touched -/
def normTmpl : Option E → List E → List E
  | _, [] => []
  | prev, p :: rest =>
    let p' : E := match p with
      | .str s =>
        let s1 := if (prev.map E.rightMarker).getD false then trimLeft s else s
        let s2 := if (rest.head?.map E.leftMarker).getD false then trimRight s1 else s1
        .str s2
      | e => e.unstrip
    p' :: normTmpl (some p) rest

/-! ### function calls (FunctionCallExpr.Value)

  The functions are the caller's: the correspondence harness installs four (`c18Funcs` in c18.go),
  modelled here.  What belongs to the language: lookup of the name, the expanding final argument,
  the arity rules, conversion of every argument to its parameter's type, null arguments, and that
  any error makes the call an error of unknown type. -/

inductive PTy where
  | num | str | bool | any
  deriving DecidableEq, Repr

structure FunSig where
  params : List PTy
  varParam : Option PTy

def funSig : String → Option FunSig
  | "add2" => some ⟨[.num, .num], none⟩
  | "cat" => some ⟨[], some .str⟩
  | "neg1" => some ⟨[.bool], none⟩
  | "pick" => some ⟨[.num], some .any⟩
  | _ => none

/-- decimal text of an integer, optional minus sign -/
def plainInt? (s : String) : Option Int :=
  let cs := s.toList
  let (neg, ds) := match cs with | '-' :: r => (true, r) | r => (false, r)
  if ds.isEmpty || !ds.all Char.isDigit then none
  else
    let v : Nat := ds.foldl (fun acc c => acc * 10 + (c.toNat - 48)) 0
    some (if neg then -(v : Int) else v)

/-- could the text be some other spelling of a number (fraction, exponent, infinity …)?  Those are not compared. -/
def numberish (s : String) : Bool :=
  let cs := s.toList.map Char.toLower
  cs.any Char.isDigit || (cs.contains 'i' && cs.contains 'n' && cs.contains 'f')

/-- conversion of an argument to its parameter's type (cty's `convert`), then the null rule -/
def convArg : PTy → V → Res
  | .any, v => .ok v
  | _, .null | _, .tnull _ => .err .dyn         -- converted to a typed null, which the call refuses
  | .num, .num n => .ok (.num n)
  | .num, .str s =>
    match plainInt? s with
    | some n => .ok (.num n)
    | none => if numberish s then .inexact else .err .dyn
  | .num, _ => .err .dyn
  | .str, .str s => .ok (.str s)
  | .str, .num n => .ok (.str (intToStr n))
  | .str, .bool b => .ok (.str (if b then "true" else "false"))
  | .str, _ => .err .dyn
  | .bool, .bool b => .ok (.bool b)
  | .bool, .str s =>
    if s == "true" || s == "1" then .ok (.bool true)
    else if s == "false" || s == "0" then .ok (.bool false)
    else .err .dyn
  | .bool, _ => .err .dyn

/-- all arguments converted: an error anywhere is an error, otherwise an inexact one makes the call inexact -/
def convArgs (sig : FunSig) : Nat → List V → Res × List V
  | _, [] => (.ok .null, [])
  | i, v :: vs =>
    let pt := (sig.params[i]?).getD (sig.varParam.getD .any)
    let (st, rest) := convArgs sig (i + 1) vs
    match convArg pt v, st with
    | .err _, _ | _, .err _ => (.err .dyn, [])
    | .inexact, _ | _, .inexact => (.inexact, [])
    | .ok x, .ok _ => (.ok .null, x :: rest)

def applyFun (name : String) (vs : List V) : Res :=
  match name, vs with
  | "add2", [.num a, .num b] => .ok (.num (a + b))
  | "neg1", [.bool b] => .ok (.bool (!b))
  | "cat", parts =>
    match parts.mapM (fun v => match v with | V.str s => some s | _ => none) with
    | some ss => .ok (.str (String.join ss))
    | none => .err .dyn
  | "pick", .num i :: xs =>
    if i < 0 then .err .dyn
    else match xs[i.toNat]? with
      | some v => .ok v
      | none => .err .dyn
  | _, _ => .err .dyn

/-- the call, given what the expanding argument supplied (`extra`) and the values of the others -/
def callWith (name : String) (fixed extra : List V) : Res :=
  match funSig name with
  | none => .err .dyn
  | some sig =>
    match convArgs sig 0 (fixed ++ extra) with
    | (.err _, _) => .err .dyn
    | (.inexact, _) => .inexact
    | (.ok _, vs) => applyFun name vs

/-- the arity rule: fewer than the parameters, or more without a variadic parameter -/
def arityOk (sig : FunSig) (n : Nat) : Bool :=
  !(n < sig.params.length) && !(sig.varParam.isNone && n > sig.params.length)

/-! ### flush heredocs (`<<-EOT`), parser_template.go flushHeredocTemplateParts

  The smallest indentation over the lines is removed from every line.  A line's indentation is the
  leading blanks of the literal it STARTS with; a line that starts with an interpolation or a
  directive has indentation 0; a line of blanks only that ends in a line end is not counted and not
  touched.  The rule works on the tokens, not on the rendered text. -/

def endsNl (s : String) : Bool := s.toList.getLast? == some '\n'
def leadBlanks (s : String) : Nat := (s.toList.takeWhile isSpaceC).length
def blankLine (s : String) : Bool := s.toList.all isSpaceC && endsNl s

def minO : Option Nat → Nat → Option Nat
  | none, n => some n
  | some m, n => some (min m n)

/-- the smallest indentation (`none`: no line counts); `nl`: the next token starts a line -/
def flushMin : Bool → List E → Option Nat → Option Nat
  | _, [], m => m
  | nl, p :: ps, m =>
    let m' := if nl then
        (match p with
         | .str s => if blankLine s then m else minO m (leadBlanks s)
         | _ => some 0)
      else m
    let nl' := match p with | .str s => endsNl s | _ => false
    flushMin nl' ps m'

/-- remove `n` leading characters from every counted literal that starts a line -/
def flushCut (n : Nat) : Bool → List E → List E
  | _, [] => []
  | nl, p :: ps =>
    let p' := match p with
      | .str s => if nl && !blankLine s then E.str (String.ofList (s.toList.drop n)) else p
      | _ => p
    let nl' := match p with | .str s => endsNl s | _ => false
    p' :: flushCut n nl' ps

def flushParts (ps : List E) : List E :=
  match flushMin true ps none with
  | none => ps
  | some n => flushCut n true ps

def heredocParts (flush : Bool) (ps : List E) : List E := if flush then flushParts ps else ps

/-- what a `for` iterates over: (key, value) pairs in iteration order; `none`: not iterable -/
def elems : V → Option (List (V × V))
  | .tuple vs | .listv vs => some ((List.range vs.length).zip vs |>.map fun (i, v) => (.num i, v))
  | .obj items | .mapv items => some (items.map fun (k, v) => (.str k, v))
  | _ => none

/-- the name the anonymous symbol of a splat is bound to (not a legal identifier) -/
def anonName : String := "@"

abbrev Env := List (String × V)

/-- combine results: an error anywhere is an error; otherwise an inexact part makes the whole inexact -/
def Res.both (t : Ty) (a b : Res) (f : V → V → Res) : Res :=
  match a, b with
  | .err _, _ | _, .err _ => .err t
  | .inexact, _ | _, .inexact => .inexact
  | .ok x, .ok y => f x y

def eval (fuel : Nat) (env : Env) (e : E) : Res :=
  match fuel with
  | 0 => .inexact
  | fuel + 1 =>
    let ev := eval fuel
    let rec evalList (es : List E) : Res × List V :=   -- (status, values); every element is evaluated
      match es with
      | [] => (.ok .null, [])
      | x :: xs =>
        let r := ev env x
        let (st, vs) := evalList xs
        match r, st with
        | .err _, _ | _, .err _ => (.err .other, [])
        | .inexact, _ | _, .inexact => (.inexact, [])
        | .ok v, .ok _ => (.ok .null, v :: vs)
    match e with
    | .num n => .ok (.num n)
    | .bool b => .ok (.bool b)
    | .null => .ok .null
    | .str s => .ok (.str s)
    | .var x => match env.lookup x with
      | some v => .ok v
      | none => .err .dyn
    | .neg a => match ev env a with
      | .ok v => match asNum v with
        | some n => .ok (.num (-n))
        | none => .err .num
      | .err _ => .err .num
      | r => r
    | .not a => match ev env a with
      | .ok v => match asBool v with
        | some b => .ok (.bool (!b))
        | none => .err .bool
      | .err _ => .err .bool
      | r => r
    | .bin op l r => Res.both op.ty (ev env l) (ev env r) (binop op)
    | .cond c t f =>
      -- both results are evaluated first and their types unified; only the chosen one's diagnostics count
      let tr := ev env t
      let fr := ev env f
      -- an inexact result may be a number or a comparison of numbers: its type is not known here
      if (tr matches .inexact) || (fr matches .inexact) then .inexact else
      match condType tr fr with
      | none => .err .dyn                                    -- inconsistent result types
      | some .other => if tr.isErr || fr.isErr || (ev env c).isErr then .err .other else .inexact
      | some ut =>
        match ev env c with
        | .err _ => .err ut
        | .inexact => .inexact
        | .ok cv =>
          match cv.isNull, asBool cv with
          | true, _ => .err ut
          | _, none => .err ut
          | _, some b =>
            match (if b then tr else fr) with
            | .ok x => .ok (convTo ut x)
            | .err t => .err (if ut == .dyn then t else ut)   -- nothing is converted when the result type is unknown
            | .inexact => .inexact
    | .tuple es =>
      match evalList es with
      | (.ok _, vs) => .ok (.tuple vs)
      | (.err _, _) => .err .other
      | (.inexact, _) => .inexact
    | .obj items =>
      match evalList (items.map (·.2)) with
      | (.ok _, vs) => .ok (.obj ((items.map (·.1)).zip vs |>.foldl (fun acc (k, v) => insertItem k v acc) []))
      | (.err _, _) => .err .other
      | (.inexact, _) => .inexact
    | .index c k => Res.both .dyn (ev env c) (ev env k) indexV
    | .attr c name => match ev env c with
      | .ok v => attrV v name
      | .err _ => .err .dyn
      | r => r
    | .forE kx x coll keyE body filter group =>
      match ev env coll with
      | .ok cv =>
        match (if cv.isNull then none else elems cv) with
        | none => .err .dyn                                  -- null or not iterable
        | some kvs =>
          -- (status, tuple results, object results, groups) over the elements, in iteration order
          let step (acc : Res × List V × List (String × V) × List (String × List V)) (kvp : V × V) :
              Res × List V × List (String × V) × List (String × List V) :=
            let env' := match kx with
              | some kn => (kn, kvp.1) :: (x, kvp.2) :: env
              | none => (x, kvp.2) :: env
            let keep : Res := match filter with
              | none => .ok (.bool true)
              | some f => match ev env' f with
                | .ok .null => .err .dyn
                | .ok fv => match asBool fv with
                  | some b => .ok (.bool b)
                  | none => .err .dyn
                | r => r
            match acc.1, keep with
            | .err _, _ | _, .err _ => (.err .dyn, [], [], [])
            | _, .ok (.bool false) => acc                    -- a filtered-out element: neither key nor value is evaluated
            | st, keepR =>
              let keyR : Res := match keyE with
                | none => .ok .null
                | some ke => match ev env' ke with
                  | .ok .null => .err .dyn
                  | .ok kv => match asTmplStr kv with
                    | some s => .ok (.str s)
                    | none => .err .dyn
                  | r => r
              let bodyR := ev env' body
              match st, keepR, keyR, bodyR with
              | _, _, .err _, _ | _, _, _, .err _ => (.err .dyn, [], [], [])
              | .inexact, _, _, _ | _, .inexact, _, _ | _, _, .inexact, _ | _, _, _, .inexact => (.inexact, [], [], [])
              | _, _, .ok (.str key), .ok bv =>
                if group then
                  let gs := if acc.2.2.2.any (·.1 == key)
                    then acc.2.2.2.map fun (k, vs) => if k == key then (k, vs ++ [bv]) else (k, vs)
                    else acc.2.2.2 ++ [(key, [bv])]
                  (.ok .null, [], [], gs)
                else if acc.2.2.1.any (·.1 == key) then (.err .dyn, [], [], [])      -- duplicate key without grouping
                else (.ok .null, [], insertItem key bv acc.2.2.1, [])
              | _, _, _, .ok bv => (.ok .null, acc.2.1 ++ [bv], [], [])
          match kvs.foldl step (.ok .null, [], [], []) with
          | (.ok _, ts, os, gs) =>
            match keyE with
            | none => .ok (.tuple ts)
            | some _ =>
              if group then .ok (.obj (gs.foldl (fun acc (k, vs) => insertItem k (.tuple vs) acc) []))
              else .ok (.obj os)
          | (.err _, _) => .err .dyn
          | (.inexact, _) => .inexact
      | .err _ => .err .dyn
      | r => r
    | .anon => match env.lookup anonName with
      | some v => .ok v
      | none => .err .dyn
    | .splat src each =>
      match ev env src with
      | .ok .null | .ok (.tnull _) => .ok (.tuple [])         -- a null that is not of a sequence type: no elements
      | .ok sv =>
        let items : List V := match sv with
          | .tuple vs | .listv vs => vs
          | v => [v]                                          -- anything else counts as a sequence of one
        let rs := items.map fun it => ev ((anonName, it) :: env) each
        if rs.any Res.isErr then .err .other
        else if rs.any (fun r => match r with | .inexact => true | _ => false) then .inexact
        else
          let vs := rs.filterMap fun r => match r with | .ok v => some v | _ => none
          match sv with
          | .listv _ => .ok (.listv vs)
          | _ => .ok (.tuple vs)
      | .err _ => .err .other
      | r => r
    | .tmplS parts0 =>
      let parts := normTmpl none parts0
      match evalList parts with
      | (.ok _, vs) =>
        match vs.mapM asTmplStr with
        | some ss => .ok (.str (String.join ss))
        | none => .err .str
      | (.err _, _) => .err .str
      | (.inexact, _) => .inexact
    | .join e =>
      match ev env e with
      | .ok (.tuple vs) =>
        match vs.mapM asTmplStr with
        | some ss => .ok (.str (String.join ss))
        | none => .err .str
      | .ok _ => .err .str
      | .err _ => .err .str
      | r => r
    | .strip _ _ a => ev env a
    | .heredoc fl ps => ev env (.tmplS (heredocParts fl ps))
    | .call name args expand =>
      match funSig name with
      | none => .err .dyn                                    -- no such function
      | some sig =>
        let fixed := if expand then args.dropLast else args
        -- the expanding argument is evaluated first: it must be a known, non-null sequence
        let extra : Res × List V :=
          if expand then
            match args.getLast? with
            | none => (.err .dyn, [])
            | some x =>
              match ev env x with
              | .ok (.tuple vs) | .ok (.listv vs) => (.ok .null, vs)
              | .ok _ => (.err .dyn, [])
              | .err _ => (.err .dyn, [])
              | .inexact => (.inexact, [])
          else (.ok .null, [])
        match extra with
        | (.err _, _) => .err .dyn
        | (.inexact, _) => .inexact
        | (.ok _, evs) =>
          if !arityOk sig (fixed.length + evs.length) then .err .dyn
          else
            match evalList fixed with
            | (.err _, _) => .err .dyn
            | (.inexact, _) => .inexact
            | (.ok _, vs) => callWith name vs evs
    | .tmpl parts0 =>
      let parts := normTmpl none parts0
      match parts with
      | [p] =>
        match p with
        | .str s => .ok (.str s)
        | _ => ev env p                     -- "${x}" is x itself, whatever its type
      | _ =>
        match evalList parts with
        | (.ok _, vs) =>
          match vs.mapM asTmplStr with
          | some ss => .ok (.str (String.join ss))
          | none => .err .str
        | (.err _, _) => .err .str
        | (.inexact, _) => .inexact

/-- enough fuel for any sub-expression nesting -/
def E.depth : E → Nat
  | .neg a | .not a => a.depth + 1
  | .bin _ l r => max l.depth r.depth + 1
  | .cond c t f => max c.depth (max t.depth f.depth) + 1
  | .index c k => max c.depth k.depth + 1
  | .attr c _ => c.depth + 1
  | _ => 1

end Havoc.Hx
