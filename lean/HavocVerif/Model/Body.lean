/-
  What decoding a configuration body means, independent of how it is written (native or JSON
  syntax, one file or several merged, literal or dynamic blocks): yaotl's decoders
  (hcldec/decode.go + spec.go, gohcl/decode.go) see a body, through `Content(schema)`, as a map of
  attributes plus, per block type, the sequence of blocks of that type.
  Values are kept in the harness notation (s<hex> n<int> b0|b1 l(s<hex>,…)).
-/
namespace Havoc.Bd

inductive Sch where
  | mk (attrs : List (String × String × Bool))             -- name, type (s n b l), required
       (blocks : List (String × Bool × Bool × Sch))         -- type, labelled, repeated, nested schema
  deriving Repr

inductive Cfg where
  | mk (attrs : List (String × String))                    -- name, value
       (blocks : List (String × String × Cfg))              -- type, label ("\x00none" = no label), body
  deriving Repr

def Sch.attrs : Sch → List (String × String × Bool)
  | .mk a _ => a
def Sch.blocks : Sch → List (String × Bool × Bool × Sch)
  | .mk _ b => b
def Cfg.attrs : Cfg → List (String × String)
  | .mk a _ => a
def Cfg.blocks : Cfg → List (String × String × Cfg)
  | .mk _ b => b

def noLabel : String := "\x00none"

/-- how a value is shown in a decoder's result -/
def showVal (v : String) : String :=
  match v.toList with
  | ['b', '1'] => "t"
  | ['b', '0'] => "f"
  | _ => v

def blocksOfType (t : String) (bs : List (String × String × Cfg)) : List (String × String × Cfg) :=
  bs.filter (·.1 == t)

/-- the decoded value as text, or `none` when the body does not fit the schema -/
def decode (fuel : Nat) (s : Sch) (label : Option String) (c : Cfg) : Option String :=
  match fuel with
  | 0 => none
  | fuel + 1 =>
    -- every attribute is known, every required one is there; every block type is known
    if !(c.attrs.all fun (n, _) => s.attrs.any (·.1 == n)) then none
    else if !(s.attrs.all fun (n, _, req) => !req || (c.attrs.lookup n).isSome) then none
    else if !(c.blocks.all fun (t, _, _) => s.blocks.any (·.1 == t)) then none
    else
      let attrParts : List String := s.attrs.filterMap fun (n, _, _) =>
        (c.attrs.lookup n).map fun v => n ++ "=" ++ showVal v
      let blockParts : Option (List String) := s.blocks.mapM fun (t, labelled, repeated, inner) =>
        let bs := blocksOfType t c.blocks
        let one (b : String × String × Cfg) : Option String :=
          if labelled then (if b.2.1 == noLabel then none else decode fuel inner (some b.2.1) b.2.2)
          else (if b.2.1 == noLabel then decode fuel inner none b.2.2 else none)
        if repeated then (bs.mapM one).map fun ds => t ++ "=[" ++ ",".intercalate ds ++ "]"
        else match bs with
          | [] => some ""
          | [b] => (one b).map fun d => t ++ "=" ++ d
          | _ => none
      blockParts.map fun bp =>
        let lbl : List String := match label with
          | some l => ["label__=s" ++ l]
          | none => []
        "{" ++ ",".intercalate (lbl ++ attrParts ++ bp.filter (· ≠ "")) ++ "}"

end Havoc.Bd
