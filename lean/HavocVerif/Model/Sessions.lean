import HavocVerif.Model.Parser
import HavocVerif.Model.Payload
/-
  Model of registration and of the session table:
  `handleDemonAgent` (exists-check, DEMON_INIT for unknown / known agents) in
  pkg/handlers/handlers.go, `ParseDemonRegisterRequest` in pkg/agent/agent.go,
  `AgentExist`/`AgentAdd` in cmd/server/agent.go, and the `COMMAND_CHECKIN`
  callback in demons.go as far as identity and keys are concerned.
-/
namespace Havoc

structure Session where
  id : Nat
  key : Bytes
  iv : Bytes
  info : List Field     -- the metadata fields that follow the inner agent id, as decoded
  deriving DecidableEq, Repr

/-- the reads of `ParseDemonRegisterRequest` after key and IV, in order -/
def registerKinds : List ReadType :=
  [.int32, .bytes, .bytes, .bytes, .bytes, .bytes, .int32, .int32, .int32, .int32, .int32, .int64,
   .int32, .int32, .int32, .int32, .int32, .int32, .int32, .int32, .int64, .int32]

/-- the `CanIRead` pre-flight list used there (12 bytes shorter than the reads) -/
def registerGuard : List ReadType :=
  [.int32, .bytes, .bytes, .bytes, .bytes, .bytes, .int32, .int32, .int32, .int32, .int32, .int32,
   .int32, .int32, .int32, .int32, .int32, .int32, .int64, .int32]

def allZero (bs : Bytes) : Bool := bs.all (· == 0)

/-- the decode + decrypt-check part of `ParseDemonRegisterRequest` on the decrypted body -/
def registerOf (hdrId : Nat) (key iv body : Bytes) : Option Session :=
  let p : Parser := ⟨body, true⟩
  if p.canIRead registerGuard then
    match (p.readFields registerKinds).1 with
    | .int32 inner :: info => if hdrId = inner then some ⟨inner, key, iv, info⟩ else none
    | _ => none
  else none

/-- `ParseDemonRegisterRequest` on what follows `[cmd][request id]`:
    key (32), IV (16), then the (encrypted unless the key is all zero) metadata. -/
def parseRegister (hdrId : Nat) (ksFor : Bytes → Bytes → KeyStream) (buf : Bytes) : Option Session :=
  if buf.length < 48 then none
  else
    let key := buf.take 32
    let iv := (buf.drop 32).take 16
    let enc := buf.drop 48
    registerOf hdrId key iv (if allZero key then enc else xcrypt (ksFor key iv) enc)

abbrev Sessions := List Session

def Sessions.exist (s : Sessions) (id : Nat) : Bool := s.any (·.id == id)

inductive InitResult where
  | registered (reply : Bytes)     -- new session, reply = agent id under the session key
  | reconnected (reply : Bytes)    -- known agent sending DEMON_INIT again: same reply, nothing changes
  | rejected
  deriving DecidableEq, Repr

/-- the reply to a registration / reconnect: `Packer.AddUInt32(id); Packer.Build()` -/
def initReply (ksFor : Bytes → Bytes → KeyStream) (key iv : Bytes) (id : Nat) : Bytes :=
  if allZero key then le32 id else xcrypt (ksFor key iv) (le32 id)

/-- a `DEMON_INIT` request with header id `hdrId` whose payload after `[cmd][req]` is `buf` -/
def handleInit (ksFor : Bytes → Bytes → KeyStream) (s : Sessions) (hdrId : Nat) (buf : Bytes) :
    Sessions × InitResult :=
  match s.find? (·.id == hdrId) with
  | some old => (s, .reconnected (initReply ksFor old.key old.iv hdrId))
  | none =>
    match parseRegister hdrId ksFor buf with
    | some sess => (s ++ [sess], .registered (initReply ksFor sess.key sess.iv hdrId))
    | none => (s, .rejected)

/-- what the Demon sends: key, IV, then the metadata under the keystream -/
def demonInitBody (ksFor : Bytes → Bytes → KeyStream) (key iv : Bytes) (id : Nat) (info : List Field) : Bytes :=
  let plain := encodeFields (.int32 id :: info)
  key ++ iv ++ (if allZero key then plain else xcrypt (ksFor key iv) plain)

end Havoc
