import HavocVerif.Model.Payload
/-
  Model of the per-agent job queue: `AddJobToQueue`/`AddRequest`,
  `GetQueuedJobs`, the job / no-job decision of `handleDemonAgent`, and
  `UploadMemFileInChunks` (teamserver/pkg/agent/{agent,demons}.go, handlers.go).
  The queue functions are generic in the job type: only the size accounting of
  `GetQueuedJobs` looks inside a job.
-/
namespace Havoc

def Job.queueSize (j : Job) : Nat := (j.data.map Arg.queueSize).sum

section
variable {α : Type} (size : α → Nat)

/-- the counting loop of `GetQueuedJobs`: `JobsSize` accumulates over the jobs
    visited; the loop stops at the first job that makes it reach the limit. -/
def countJobsBy (maxLen : Nat) : List α → Nat → Nat → Nat
  | [], _, num => num
  | j :: js, sz, num =>
    let sz' := sz + size j
    if sz' ≥ maxLen then num else countJobsBy maxLen js sz' (num + 1)

def numJobsBy (maxLen : Nat) (q : List α) : Nat :=
  let n := countJobsBy size maxLen q 0 0
  if q.length > 0 ∧ n = 0 then 1 else n

/-- `GetQueuedJobs`: (batch handed out, queue left) -/
def getQueuedBy (maxLen : Nat) (q : List α) : List α × List α :=
  (q.take (numJobsBy size maxLen q), q.drop (numJobsBy size maxLen q))
end

def maxResponse : Nat := Gen.Consts.DEMON_MAX_RESPONSE_LENGTH

def getQueued (maxLen : Nat) (q : List Job) : List Job × List Job := getQueuedBy Job.queueSize maxLen q

def noJob : Job := ⟨Gen.Consts.COMMAND_NOJOB, 0, []⟩

/-- the reply of a check-in: `none` = the single NOJOB frame, `some batch` = jobs taken off the queue -/
def checkinBy {α : Type} (size : α → Nat) (asked : Bool) (q : List α) : Option (List α) × List α :=
  if asked = false ∨ q.length = 0 then (none, q)
  else let (b, r) := getQueuedBy size maxResponse q; (some b, r)

/-- the reply of a check-in as jobs on the wire -/
def checkinJobs (asked : Bool) (q : List Job) : List Job × List Job :=
  match checkinBy Job.queueSize asked q with
  | (none, r) => ([noJob], r)
  | (some b, r) => (b, r)

/-- `UploadMemFileInChunks`: `for start := 0; start <= FileSize; start += chunkSize`:
    the list of chunk start offsets (fuel = size + 1 iterations at most, chunk > 0). -/
def chunkStarts (chunk : Nat) (size : Nat) : Nat → Nat → List Nat
  | 0, _ => []
  | fuel + 1, start => if start ≤ size then start :: chunkStarts chunk size fuel (start + chunk) else []

/-- (start, length) of every chunk: `end = min (start + chunk) size` -/
def chunkRanges (chunk : Nat) (size : Nat) : List (Nat × Nat) :=
  (chunkStarts chunk size (size + 1) 0).map fun s => (s, min chunk (size - s))

def memFileChunks (chunk : Nat) (file : Bytes) : List Bytes :=
  (chunkRanges chunk file.length).map fun (s, n) => (file.drop s).take n

def memFileJobs (chunk : Nat) (fileId : Nat) (file : Bytes) (reqIds : List Nat) : List Job :=
  (memFileChunks chunk file).zipIdx.map fun (c, i) =>
    ⟨Gen.Consts.COMMAND_MEM_FILE, reqIds.getD i 0, [.uint32 fileId, .uint64 file.length, .bytes c]⟩

end Havoc
