import HavocVerif.Model.Payload
/-
  Model of the per-agent job queue: `AddJobToQueue`/`AddRequest`,
  `GetQueuedJobs`, the job / no-job decision of `handleDemonAgent`, and
  `UploadMemFileInChunks` (teamserver/pkg/agent/{agent,demons}.go, handlers.go).
-/
namespace Havoc

def Job.queueSize (j : Job) : Nat := (j.data.map Arg.queueSize).sum

/-- the counting loop of `GetQueuedJobs`: `JobsSize` accumulates over the jobs
    visited; the loop stops at the first job that makes it reach the limit. -/
def countJobs (maxLen : Nat) : List Job → Nat → Nat → Nat
  | [], _, num => num
  | j :: js, size, num =>
    let size' := size + j.queueSize
    if size' ≥ maxLen then num else countJobs maxLen js size' (num + 1)

def numJobs (maxLen : Nat) (q : List Job) : Nat :=
  let n := countJobs maxLen q 0 0
  if q.length > 0 ∧ n = 0 then 1 else n

/-- `GetQueuedJobs`: (batch handed out, queue left) -/
def getQueued (maxLen : Nat) (q : List Job) : List Job × List Job :=
  (q.take (numJobs maxLen q), q.drop (numJobs maxLen q))

def maxResponse : Nat := Gen.Consts.DEMON_MAX_RESPONSE_LENGTH

def noJob : Job := ⟨Gen.Consts.COMMAND_NOJOB, 0, []⟩

/-- the reply of a check-in: (jobs put on the wire, queue left) -/
def checkinJobs (asked : Bool) (q : List Job) : List Job × List Job :=
  if asked = false ∨ q.length = 0 then ([noJob], q) else getQueued maxResponse q

/-- `UploadMemFileInChunks`: `for start := 0; start <= FileSize; start += chunkSize`.
    `ids` supplies the random request ids (one per chunk). -/
def chunkStarts (chunk : Nat) (size : Nat) : Nat → Nat → List Nat
  | 0, _ => []
  | fuel + 1, start => if start ≤ size then start :: chunkStarts chunk size fuel (start + chunk) else []

def memFileChunks (chunk : Nat) (file : Bytes) : List Bytes :=
  (chunkStarts chunk file.length (file.length + 1) 0).map fun s => (file.drop s).take chunk

def memFileJobs (chunk : Nat) (fileId : Nat) (file : Bytes) (reqIds : List Nat) : List Job :=
  (memFileChunks chunk file).zipIdx.map fun (c, i) =>
    ⟨Gen.Consts.COMMAND_MEM_FILE, reqIds.getD i 0, [.uint32 fileId, .uint64 file.length, .bytes c]⟩

end Havoc
