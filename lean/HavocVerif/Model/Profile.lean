import HavocVerif.Gen.ProfileSchema
/-
  The profile schema (regenerated from pkg/profile/config.go) as a tree walk, and what loading a
  written configuration must yield: the written entries plus the zero value of every optional
  attribute that was left out (gohcl leaves the Go zero value).
  A configuration is a list of entries `path=value`; a block instance is `path={}`.
-/
namespace Havoc.Profile
open Havoc.Gen.ProfileSchema

structure Field where
  goName : String
  name : String          -- the yaotl name
  kind : String          -- attr | optional | block | label
  goType : String
  deriving Repr

def fieldsOf (s : String) : Option (List Field) :=
  (structs.lookup s).map fun fs => fs.map fun (a, b, c, d) => ⟨a, b, c, d⟩

def stripTypeC : List Char → List Char
  | '[' :: ']' :: '*' :: r => r
  | '[' :: ']' :: r => r
  | '*' :: r => r
  | r => r

def structOfType (t : String) : String := String.ofList (stripTypeC t.toList)

def isRepeated (t : String) : Bool :=
  match t.toList with
  | '[' :: ']' :: _ => true
  | _ => false

/-- one path segment: the block (or attribute) name and the index of a repeated block -/
structure Seg where
  name : String
  idx : Option Nat
  deriving Repr, BEq

def parseSeg (s : String) : Seg :=
  match s.splitOn "#" with
  | [n, i] => ⟨n, i.toNat?⟩
  | _ => ⟨s, none⟩

def parsePath (p : String) : List Seg := ((p.splitOn ".").filter (· ≠ "")).map parseSeg

/-- the struct a block path denotes, walking down from HavocConfig -/
def structAt (root : String) : List Seg → Option String
  | [] => some root
  | s :: rest =>
    match fieldsOf root with
    | none => none
    | some fs =>
      match fs.find? (fun f => f.name == s.name && f.kind == "block") with
      | some f => if isRepeated f.goType == s.idx.isSome then structAt (structOfType f.goType) rest else none
      | none => none

def zeroOf (goType : String) : String :=
  if goType == "string" then "s-" else if goType == "int" then "i0" else if goType == "bool" then "b0"
  else if goType.startsWith "map" then "m()" else "l()"

structure Entry where
  path : String
  val : String
  deriving Repr, BEq

def parseEntries (s : String) : List Entry :=
  if s == "-" then [] else (s.splitOn ";").filterMap fun e =>
    match e.splitOn "=" with
    | p :: v => some ⟨p, "=".intercalate v⟩
    | _ => none

/-- the zero-valued entries of the attributes a block instance (or the root) does not mention -/
def defaultsFor (es : List Entry) (blockPath : String) : List Entry :=
  match structAt "HavocConfig" (parsePath blockPath) >>= fieldsOf with
  | none => []
  | some fs => fs.filterMap fun f =>
      if f.kind == "block" then none
      else
        let p := blockPath ++ "." ++ f.name
        if es.any (·.path == p) then none else some ⟨p, zeroOf f.goType⟩

/-- what the loader must return for a written configuration -/
def expected (es : List Entry) : List Entry :=
  let blocks := "" :: (es.filter (·.val == "{}")).map (·.path)
  es ++ blocks.flatMap (defaultsFor es)

/-- `blockPath.attr`: the field this attribute entry belongs to -/
def fieldOfEntry (path : String) : Option Field :=
  let segs := parsePath path
  match segs.reverse with
  | last :: revInit => (structAt "HavocConfig" revInit.reverse >>= fieldsOf) >>= fun fs => fs.find? (·.name == last.name)
  | [] => none

/-- is every entry known to the schema, every required attribute of every block instance there,
    and no single block given twice? -/
def wellFormed (es : List Entry) : Bool :=
  let blocks := "" :: (es.filter (·.val == "{}")).map (·.path)
  es.all (fun e => if e.val == "{}" then (structAt "HavocConfig" (parsePath e.path)).isSome else (fieldOfEntry e.path).isSome) &&
  blocks.all (fun b =>
    match structAt "HavocConfig" (parsePath b) >>= fieldsOf with
    | none => false
    | some fs => fs.all fun f => !(f.kind == "attr" || f.kind == "label") || es.any (·.path == b ++ "." ++ f.name)) &&
  (es.map (·.path)).eraseDups.length == es.length

end Havoc.Profile
