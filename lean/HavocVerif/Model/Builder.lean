import HavocVerif.Model.Utf16
/-
  Model of the Demon configuration block:
    teamserver/pkg/common/builder/builder.go  PatchConfig   (what is packed, in which order)
    teamserver/pkg/common/packer/packer.go    AddInt / AddInt32 / AddInt64 / AddWString (little endian)
    teamserver/pkg/common/util.go             ParseWorkingHours, EncodeUTF16
    payloads/Demon/src/Demon.c                DemonConfig   (how the Demon reads it back)

  Operator strings are code-point lists; a wide string is its UTF-16 code units.
-/
namespace Havoc

/-! ### what the Demon ends up with -/

inductive Transport where
  | http (killDate workingHours : Nat) (method : List Nat) (rotation : Nat) (hosts : List (List Nat × Nat))
         (secure : Nat) (userAgent : List Nat) (headers uris : List (List Nat))
         (proxy : Option (List Nat × List Nat × List Nat))
  | smb (pipe : List Nat) (killDate workingHours : Nat)
  deriving DecidableEq, Repr

structure DemonCfg where
  sleep : Nat
  jitter : Nat
  alloc : Nat
  execute : Nat
  spawn64 : List Nat          -- UTF-16 units, terminator included
  spawn32 : List Nat
  technique : Nat
  bypass : Nat
  stackSpoof : Nat
  proxyLoading : Nat
  sysIndirect : Nat
  amsi : Nat
  transport : Transport
  deriving DecidableEq, Repr

/-! ### packing (packer.go) -/

def units16 (us : List Nat) : Bytes := us.flatMap le16

/-- AddBytes of the UTF-16LE units: 4-byte length, then the bytes -/
def packW (us : List Nat) : Bytes := le32 (2 * us.length) ++ units16 us

def packHosts : List (List Nat × Nat) → Bytes
  | [] => []
  | (h, p) :: rest => packW h ++ le32 p ++ packHosts rest

def packList : List (List Nat) → Bytes
  | [] => []
  | s :: rest => packW s ++ packList rest

def packTransport : Transport → Bytes
  | .http kd wh m rot hosts sec ua hdrs uris proxy =>
    le64 kd ++ le32 wh ++ packW m ++ le32 rot ++ le32 hosts.length ++ packHosts hosts ++ le32 sec ++ packW ua ++
    le32 hdrs.length ++ packList hdrs ++ le32 uris.length ++ packList uris ++
    (match proxy with
     | some (url, user, pass) => le32 1 ++ packW url ++ packW user ++ packW pass
     | none => le32 0)
  | .smb pipe kd wh => packW pipe ++ le64 kd ++ le32 wh

def packCfg (c : DemonCfg) : Bytes :=
  le32 c.sleep ++ le32 c.jitter ++ le32 c.alloc ++ le32 c.execute ++ packW c.spawn64 ++ packW c.spawn32 ++
  le32 c.technique ++ le32 c.bypass ++ le32 c.stackSpoof ++ le32 c.proxyLoading ++ le32 c.sysIndirect ++ le32 c.amsi ++
  packTransport c.transport

/-! ### reading (Demon.c DemonConfig over Parser.c, Endian = FALSE) -/

abbrev CRd (α : Type) := Bytes → Option (α × Bytes)

def getI32 : CRd Nat := fun b => if b.length < 4 then none else some (leNat (b.take 4), b.drop 4)
def getI64 : CRd Nat := fun b => if b.length < 8 then none else some (leNat (b.take 8), b.drop 8)

/-- ParserGetBytes: length prefix, then that many bytes, returned as 16-bit units -/
def getW : CRd (List Nat) := fun b =>
  match getI32 b with
  | none => none
  | some (n, rest) => if rest.length < n then none else some (u16sOf (rest.take n), rest.drop n)

def getHosts : Nat → CRd (List (List Nat × Nat))
  | 0 => fun b => some ([], b)
  | n + 1 => fun b =>
    match getW b with
    | none => none
    | some (h, b1) =>
      match getI32 b1 with
      | none => none
      | some (p, b2) =>
        match getHosts n b2 with
        | none => none
        | some (hs, b3) => some ((h, p) :: hs, b3)

def getList : Nat → CRd (List (List Nat))
  | 0 => fun b => some ([], b)
  | n + 1 => fun b =>
    match getW b with
    | none => none
    | some (s, b1) =>
      match getList n b1 with
      | none => none
      | some (ss, b2) => some (s :: ss, b2)

def getHttp : CRd Transport := fun b => do
  let (kd, b) ← getI64 b
  let (wh, b) ← getI32 b
  let (m, b) ← getW b
  let (rot, b) ← getI32 b
  let (nh, b) ← getI32 b
  let (hosts, b) ← getHosts nh b
  let (sec, b) ← getI32 b
  let (ua, b) ← getW b
  let (nhd, b) ← getI32 b
  let (hdrs, b) ← getList nhd b
  let (nu, b) ← getI32 b
  let (uris, b) ← getList nu b
  let (pe, b) ← getI32 b
  if pe = 0 then pure (Transport.http kd wh m rot hosts sec ua hdrs uris none, b)
  else do
    let (url, b) ← getW b
    let (user, b) ← getW b
    let (pass, b) ← getW b
    pure (Transport.http kd wh m rot hosts sec ua hdrs uris (some (url, user, pass)), b)

def getSmb : CRd Transport := fun b => do
  let (pipe, b) ← getW b
  let (kd, b) ← getI64 b
  let (wh, b) ← getI32 b
  pure (Transport.smb pipe kd wh, b)

/-- `smb = true` is the TRANSPORT_SMB build, otherwise TRANSPORT_HTTP -/
def readCfg (smb : Bool) : CRd DemonCfg := fun b => do
  let (sleep, b) ← getI32 b
  let (jitter, b) ← getI32 b
  let (alloc, b) ← getI32 b
  let (execute, b) ← getI32 b
  let (s64, b) ← getW b
  let (s32, b) ← getW b
  let (tech, b) ← getI32 b
  let (byp, b) ← getI32 b
  let (spoof, b) ← getI32 b
  let (pl, b) ← getI32 b
  let (sys, b) ← getI32 b
  let (amsi, b) ← getI32 b
  let (t, b) ← (if smb then getSmb b else getHttp b)
  pure (⟨sleep, jitter, alloc, execute, s64, s32, tech, byp, spoof, pl, sys, amsi, t⟩, b)

/-! ### what the operator chose, and what PatchConfig makes of it -/

/-- EncodeUTF16: a terminating NUL is appended unless there is one; then UTF-16 -/
def wide (cs : List Nat) : List Nat :=
  ((if cs.getLast? = some 0 then cs else cs ++ [0])).flatMap utf16Units

def asciiStr (s : String) : List Nat := s.toList.map (·.toNat)

def allocCode (s : String) : Nat := if s = "Win32" then 1 else if s = "Native/Syscall" then 2 else 0
def techniqueCode (s : String) : Nat :=
  if s = "Foliage" then 3 else if s = "Ekko" then 1 else if s = "Zilean" then 2 else 0
def gadgetCode (s : String) : Nat := if s = "jmp rax" then 1 else if s = "jmp rbx" then 2 else 0
def proxyLoadingCode (s : String) : Nat :=
  if s = "RtlRegisterWait" then 1 else if s = "RtlCreateTimer" then 2 else if s = "RtlQueueWorkItem" then 3 else 0
def amsiCode (s : String) : Nat := if s = "Hardware breakpoints" then 1 else 0

structure BuildOpts where
  sleep : Int
  jitter : Int
  indirectSyscall : Bool
  alloc : String
  execute : String
  spawn64 : List Nat
  spawn32 : List Nat
  technique : String
  gadget : String
  stackDup : Bool
  proxyLoading : String
  amsi : String

/-- working hours `H:MM-H:MM` → the packed word (ParseWorkingHours after its regular expression) -/
def packHours (sh sm eh em : Nat) : Nat :=
  4194304 + (sh % 32) * 131072 + (sm % 64) * 2048 + (eh % 32) * 64 + (em % 64)

def hoursOk (sh sm eh em : Nat) : Bool :=
  sh ≤ 24 && eh ≤ 24 && sm ≤ 60 && em ≤ 60 && !(eh < sh || (sh == eh && em ≤ sm))

structure Hours where      -- none = the empty string (no working hours)
  sh : Nat
  sm : Nat
  eh : Nat
  em : Nat
  deriving DecidableEq, Repr

def isDigit (c : Nat) : Bool := 48 ≤ c && c ≤ 57

/-- `[12]?[0-9]:[0-6][0-9]` -/
def parseHM (s : List Nat) : Option (Nat × Nat) :=
  let hm (h : Nat) (a b : Nat) : Option (Nat × Nat) :=
    if 48 ≤ a ∧ a ≤ 54 ∧ isDigit b then some (h, (a - 48) * 10 + (b - 48)) else none
  match s with
  | [h, 58, a, b] => if isDigit h then hm (h - 48) a b else none
  | [t, h, 58, a, b] => if (t = 49 ∨ t = 50) ∧ isDigit h then hm ((t - 48) * 10 + (h - 48)) a b else none
  | _ => none

def splitAt45 (s : List Nat) : Option (List Nat × List Nat) :=
  match s.span (· ≠ 45) with
  | (a, 45 :: b) => some (a, b)
  | _ => none

/-- the empty string means "no working hours"; otherwise `^[12]?[0-9]:[0-6][0-9]-[12]?[0-9]:[0-6][0-9]$` -/
def parseHours (s : List Nat) : Option (Option Hours) :=
  if s = [] then some none
  else match splitAt45 s with
    | some (a, b) =>
      match parseHM a, parseHM b with
      | some (sh, sm), some (eh, em) => some (some ⟨sh, sm, eh, em⟩)
      | _, _ => none
    | none => none

def hoursWord (raw : List Nat) : Option Nat :=
  match parseHours raw with
  | none => none
  | some none => some 0
  | some (some h) => if hoursOk h.sh h.sm h.eh h.em then some (packHours h.sh h.sm h.eh h.em) else none

/-- strconv.Atoi: optional sign, at least one decimal digit, within int64 -/
def atoiDigits : List Nat → Option Nat
  | [] => some 0
  | ds => ds.foldl (fun acc d => match acc with
      | none => none
      | some a => if 48 ≤ d ∧ d ≤ 57 then some (a * 10 + (d - 48)) else none) (some 0)

def goAtoi (s : List Nat) : Option Int :=
  let (neg, ds) := match s with
    | 45 :: r => (true, r)
    | 43 :: r => (false, r)
    | r => (false, r)
  if ds = [] then none
  else match atoiDigits ds with
    | none => none
    | some v =>
      if neg then (if v ≤ 9223372036854775808 then some (-(v : Int)) else none)
      else (if v < 9223372036854775808 then some (v : Int) else none)

def splitOn58 : List Nat → List (List Nat)
  | [] => [[]]
  | c :: cs =>
    match splitOn58 cs with
    | [] => [[c]]
    | cur :: rest => if c = 58 then [] :: cur :: rest else (c :: cur) :: rest

/-- `host` or `host:port` (anything after a second colon is ignored, as strings.Split + [0],[1] does) -/
def parseHost (raw : List Nat) : Option (List Nat × Option Int) :=
  match splitOn58 raw with
  | [h] => some (h, none)
  | h :: p :: _ => (goAtoi p).map fun v => (h, some v)
  | [] => none

structure HttpL where
  portConn : List Nat
  portBind : List Nat
  killDate : Nat
  hours : List Nat                   -- WorkingHours as configured
  getMethod : Bool                   -- Methode = "get" (any case)
  rotation : String
  hosts : List (List Nat)            -- as configured: `host` or `host:port`
  secure : Bool
  userAgent : List Nat
  headers : List (List Nat)
  hostHeader : List Nat
  uris : List (List Nat)
  proxy : Option (List Nat × List Nat × List Nat × List Nat × List Nat)   -- type, host, port, user, password

def HttpL.port (h : HttpL) : Option Int := if h.portConn ≠ [] then goAtoi h.portConn else goAtoi h.portBind

def allSome {α : Type} : List (Option α) → Option (List α)
  | [] => some []
  | none :: _ => none
  | some x :: rest => (allSome rest).map (x :: ·)

inductive ListenerL where
  | http (l : HttpL)
  | smb (pipe : List Nat) (killDate : Nat) (hours : List Nat)

def inI32 (v : Int) : Bool := 0 ≤ v && v < 2147483648
def portOk (v : Int) : Bool := 1 ≤ v && v ≤ 65535

/-- the configuration the operator asked for, as Demon fields; `none` = the build fails -/
def specCfg (o : BuildOpts) (l : ListenerL) : Option DemonCfg :=
  if !(inI32 o.sleep) || !(0 ≤ o.jitter && o.jitter ≤ 100) then none
  else if o.alloc = "" || o.execute = "" || o.spawn64 = [] || o.spawn32 = [] || o.technique = "" || o.gadget = "" ||
          o.proxyLoading = "" || o.amsi = "" then none
  else
    let tech := techniqueCode o.technique
    let transport : Option Transport :=
      match l with
      | .smb pipe kd hours =>
        (hoursWord hours).map fun w => Transport.smb (wide (asciiStr "\\\\.\\pipe\\" ++ pipe)) kd w
      | .http h =>
        match h.port, allSome (h.hosts.map parseHost) with
        | some port, some hosts =>
          if !(portOk port) || h.getMethod || hosts.any (fun x => match x.2 with | some p => !(portOk p) | none => false) then none
          else
            (hoursWord h.hours).map fun w =>
              let hdrs : List (List Nat) :=
                (if h.headers = [] then [asciiStr "Content-type: */*"] else h.headers) ++
                (if h.hostHeader = [] then [] else [asciiStr "Host: " ++ h.hostHeader])
              Transport.http h.killDate w (wide (asciiStr "POST")) (if h.rotation = "round-robin" then 0 else 1)
                (hosts.map fun (host, p) => (wide host, ((p.getD port).toNat)))
                (if h.secure then 1 else 0) (wide h.userAgent) (hdrs.map wide)
                ((if h.uris = [] then [asciiStr "/"] else h.uris).map wide)
                (h.proxy.map fun (ty, ho, po, u, p) => (wide (ty ++ asciiStr "://" ++ ho ++ asciiStr ":" ++ po), wide u, wide p))
        | _, _ => none
    transport.map fun t =>
      { sleep := o.sleep.toNat, jitter := o.jitter.toNat, alloc := allocCode o.alloc, execute := allocCode o.execute,
        spawn64 := wide o.spawn64, spawn32 := wide o.spawn32,
        technique := tech, bypass := if tech = 0 then 0 else gadgetCode o.gadget,
        stackSpoof := if tech ≠ 0 && o.stackDup then 1 else 0,
        proxyLoading := proxyLoadingCode o.proxyLoading, sysIndirect := if o.indirectSyscall then 1 else 0,
        amsi := amsiCode o.amsi, transport := t }

/-- PatchConfig: the bytes compiled into the Demon -/
def patchConfig (o : BuildOpts) (l : ListenerL) : Option Bytes := (specCfg o l).map packCfg

end Havoc
