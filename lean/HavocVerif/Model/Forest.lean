/-
  Model of the pivot graph and its mirror in TS_Links:
  `LinkAdd` / `LinkRemove` / `Died` / `UnlinkFromAll` (cmd/server/agent.go), the
  `DEMON_PIVOT_SMB_CONNECT` / `DEMON_PIVOT_SMB_DISCONNECT` callbacks and COMMAND_EXIT /
  COMMAND_KILL_DATE (pkg/agent/demons.go), operator mark dead / alive (dispatch.go),
  `db.LinkAdd` / `db.LinkRemove` (pkg/db/links.go).
-/
namespace Havoc

structure Forest where
  agents : List Nat := []                 -- session table, in registration order
  parent : Nat → Option Nat := fun _ => none
  links : Nat → List Nat := fun _ => []
  rows : List (Nat × Nat) := []           -- TS_Links (parent, child)
  active : Nat → Bool := fun _ => false

def upd {β : Type} (f : Nat → β) (k : Nat) (v : β) : Nat → β := fun x => if x = k then v else f x

/-- `Teamserver.LinkRemove(parent, link, UpdateLinks)` (+ `db.LinkRemove`) -/
def Forest.linkRemove (f : Forest) (p c : Nat) (updateLinks : Bool) : Forest :=
  { f with
    active := upd f.active c false
    parent := if f.parent c = some p then upd f.parent c none else f.parent
    links := if updateLinks then upd f.links p ((f.links p).erase c) else f.links
    rows := f.rows.filter (· ≠ (p, c)) }

/-- `db.LinkAdd`: no duplicate rows -/
def addRow (rows : List (Nat × Nat)) (r : Nat × Nat) : List (Nat × Nat) :=
  if rows.contains r then rows else rows ++ [r]

/-- is `c` the agent `p` itself or one of its ancestors?  (the `for Ancestor := a; …` walk) -/
def upReaches (f : Forest) : Nat → Nat → Nat → Bool
  | 0, _, _ => false
  | fuel + 1, p, c =>
    if p = c then true
    else match f.parent p with
      | none => false
      | some q => upReaches f fuel q c

/-- SMB connect reported by `p` for agent `c` -/
def Forest.connect (f : Forest) (p c : Nat) : Forest :=
  if ¬ f.agents.contains p then f
  else if ¬ f.agents.contains c then
    -- new agent registered through the pivot
    { f with agents := f.agents ++ [c], parent := upd f.parent c (some p), links := upd f.links p (f.links p ++ [c]),
             rows := addRow f.rows (p, c), active := upd f.active c true }
  else if upReaches f (f.agents.length + 1) p c then f      -- would close a cycle: refused
  else
    let f1 := match f.parent c with
      | some q => f.linkRemove q c true
      | none => f
    { f1 with parent := upd f1.parent c (some p), links := upd f1.links p (f1.links p ++ [c]),
              rows := addRow f1.rows (p, c), active := upd f1.active c true }

/-- SMB disconnect reported by `p` for agent `c` -/
def Forest.disconnect (f : Forest) (p c : Nat) : Forest :=
  if f.agents.contains p ∧ f.agents.contains c ∧ f.parent c = some p then f.linkRemove p c true else f

def Forest.linksErase (g : Forest) (q a : Nat) : Forest := { g with links := upd g.links q ((g.links q).erase a) }

/-- `Died`: the agent goes inactive and `UnlinkFromAll` detaches every link, both ways -/
def Forest.died (f : Forest) (a : Nat) : Forest :=
  if ¬ f.agents.contains a then f
  else
    let f0 := { f with active := upd f.active a false }
    -- every link of the dying agent
    let f1 := (f0.links a).foldl (fun g l => g.linkRemove a l false) f0
    let f2 := { f1 with links := upd f1.links a [] }
    -- the dying agent in other agents' links
    (f2.agents.filter (· ≠ a)).foldl
      (fun g q => if (g.links q).contains a then (g.linkRemove q a false).linksErase q a else g) f2

def Forest.markAlive (f : Forest) (a : Nat) : Forest :=
  if f.agents.contains a then { f with active := upd f.active a true } else f

def Forest.register (f : Forest) (a : Nat) : Forest :=
  if f.agents.contains a then f else { f with agents := f.agents ++ [a], active := upd f.active a true }

inductive FOp where
  | register (a : Nat) | connect (p c : Nat) | disconnect (p c : Nat) | died (a : Nat) | markAlive (a : Nat)
  deriving Repr

def Forest.step (f : Forest) : FOp → Forest
  | .register a => f.register a
  | .connect p c => f.connect p c
  | .disconnect p c => f.disconnect p c
  | .died a => f.died a
  | .markAlive a => f.markAlive a

end Havoc
