import HavocVerif.Basic.Bytes
/-
  Model of `common.DecodeUTF16` (teamserver/pkg/common/util.go) and of the wide
  strings the Demon sends (UTF-16LE).  A Go `string` built from runes is the
  UTF-8 encoding of those code points, so a decoded string is modelled as its
  code-point list and turned into UTF-8 bytes only at the observation boundary.
-/
namespace Havoc

def isHighSurr (a : Nat) : Bool := 0xD800 ≤ a && a < 0xDC00
def isLowSurr (a : Nat) : Bool := 0xDC00 ≤ a && a < 0xE000
def isScalar (c : Nat) : Bool := c < 0x110000 && !(0xD800 ≤ c && c < 0xE000)

/-- byte pairs to 16-bit units, little endian; a trailing odd byte is ignored
    (`for i := 0; i+1 < len(b); i += 2`). -/
def u16sOf : Bytes → List Nat
  | a :: b :: rest => (a.toNat + 256 * b.toNat) :: u16sOf rest
  | _ => []

/-- Go `unicode/utf16.Decode`: valid pairs combine, any other surrogate is U+FFFD. -/
def utf16Decode : List Nat → List Nat
  | [] => []
  | [a] => if isHighSurr a || isLowSurr a then [0xFFFD] else [a]
  | a :: b :: rest =>
    if isHighSurr a && isLowSurr b then
      ((a - 0xD800) * 1024 + (b - 0xDC00) + 0x10000) :: utf16Decode rest
    else if isHighSurr a || isLowSurr a then 0xFFFD :: utf16Decode (b :: rest)
    else a :: utf16Decode (b :: rest)
termination_by l => l.length

def decodeUTF16 (b : Bytes) : List Nat := utf16Decode (u16sOf b)

/-- The Demon / Windows side: UTF-16LE encoding of scalar values. -/
def utf16Units (c : Nat) : List Nat :=
  if c < 0x10000 then [c] else [0xD800 + (c - 0x10000) / 1024, 0xDC00 + (c - 0x10000) % 1024]

def encodeUTF16LE (cs : List Nat) : Bytes := (cs.flatMap utf16Units).flatMap le16

/-- UTF-8 encoding of one scalar value (Go `utf8.EncodeRune`; invalid → U+FFFD). -/
def utf8Enc (c : Nat) : Bytes :=
  if c < 0x80 then [UInt8.ofNat c]
  else if c < 0x800 then [UInt8.ofNat (0xC0 + c / 64), UInt8.ofNat (0x80 + c % 64)]
  else if 0xD800 ≤ c ∧ c < 0xE000 then [0xEF, 0xBF, 0xBD]
  else if c < 0x10000 then
    [UInt8.ofNat (0xE0 + c / 4096), UInt8.ofNat (0x80 + c / 64 % 64), UInt8.ofNat (0x80 + c % 64)]
  else if c < 0x110000 then
    [UInt8.ofNat (0xF0 + c / 262144), UInt8.ofNat (0x80 + c / 4096 % 64),
     UInt8.ofNat (0x80 + c / 64 % 64), UInt8.ofNat (0x80 + c % 64)]
  else [0xEF, 0xBF, 0xBD]

def utf8 (cs : List Nat) : Bytes := cs.flatMap utf8Enc

end Havoc
