import HavocVerif.Basic.Bytes
/-
  Model of the reverse port-forward table of an agent (pkg/agent/agent.go PortFwd*, the
  SOCKET_COMMAND_OPEN / READ / RPORTFWD_REMOVE cases of TaskDispatch).  The forward target is part of the
  state: it listens or not, and has received bytes.
-/
namespace Havoc.PortFwd

structure Fwd where
  sid : Nat
  up : Bool              -- the forward target accepts connections
  conn : Bool            -- the teamserver holds an open connection to it
  got : Bytes            -- what the target has received so far
  live : Nat             -- connections the target holds whose other end is still open
  deriving DecidableEq, Repr

structure St where
  fwds : List Fwd := []              -- the table, in insertion order
  targets : List Fwd := []           -- targets of forwards that were removed (they keep what they received)
  deriving Repr

inductive Op where
  | open_ (sid : Nat) (up : Bool)    -- the agent reports a client on the forward; `up`: the target listens (from now on)
  | up (sid : Nat)
  | read (sid : Nat) (data : Bytes)  -- what the forwarded client wrote
  | remove (sid : Nat)

inductive Out where
  | none
  | written            -- the data reached the target
  | refused            -- an error is reported to the operator, nothing is written
  deriving DecidableEq, Repr

def St.find (s : St) (sid : Nat) : Option Fwd := s.fwds.find? (·.sid == sid)
def St.set (s : St) (f : Fwd) : St := { s with fwds := s.fwds.map fun g => if g.sid == f.sid then f else g }

def step (s : St) : Op → St × Out
  | .open_ sid up =>
    match s.find sid with
    | some f => (s.set { f with up := f.up || up }, .none)        -- "socket already exists": nothing (the target may have come up)
    | none =>
      -- a target that was used under this id before keeps listening as it did
      let old := s.targets.find? (·.sid == sid)
      let f : Fwd := match old with
        | some o => { o with up := o.up || up, conn := false }
        | none => ⟨sid, up, false, [], 0⟩
      ({ fwds := s.fwds ++ [f], targets := s.targets.filter (·.sid != sid) }, .none)
  | .up sid =>
    match s.find sid with
    | some f => (s.set { f with up := true }, .none)
    | none => ({ s with targets := s.targets.map fun t => if t.sid == sid then { t with up := true } else t }, .none)
  | .read sid data =>
    match s.find sid with
    | none => (s, .refused)                                       -- unknown socket id
    | some f =>
      if f.conn then (s.set { f with got := f.got ++ data }, .written)
      else if f.up then (s.set { f with conn := true, got := f.got ++ data, live := f.live + 1 }, .written)   -- dialled on the first data
      else (s, .refused)                                          -- the dial failed: the entry stays, still closed; a later read dials again
  | .remove sid =>
    match s.find sid with
    | none => (s, .none)
    | some f => ({ fwds := s.fwds.filter (·.sid != sid),
                   targets := s.targets ++ [{ f with conn := false, live := if f.conn then f.live - 1 else f.live }] }, .none)

def run (ops : List Op) : St := ops.foldl (fun s op => (step s op).1) {}

end Havoc.PortFwd
