import HavocVerif.Model.Sessions
/-
  Model of the agent-facing entry point: `agent.ParseHeader`,
  `handlers.parseAgentRequest`, the dispatch on the magic value, and the
  command/request-id loop of `handleDemonAgent` (as far as termination goes).
-/
namespace Havoc

structure Header where
  size : Nat
  magic : Nat
  agentId : Nat
  data : Bytes
  deriving DecidableEq, Repr

/-- `ParseHeader`: each of the three fields is read only if MORE than 4 bytes are left -/
def parseHeader (body : Bytes) : Option Header :=
  let p0 : Parser := ⟨body, true⟩
  if p0.length > 4 then
    let (size, p1) := p0.parseInt32
    if p1.length > 4 then
      let (magic, p2) := p1.parseInt32
      if p2.length > 4 then
        let (aid, p3) := p2.parseInt32
        some ⟨size, magic, aid, p3.buf⟩
      else none
    else none
  else none

inductive Outcome where
  | rejected          -- the listener answers with the decoy 404; nothing happened
  | reply (bytes : Bytes)
  | handled           -- known agent / service agent: some protocol reply (content modelled elsewhere)
  deriving DecidableEq, Repr

/-- the unknown-agent branch of `handleDemonAgent`: only a `DEMON_INIT` that passes the
    decrypt-check has any effect -/
def unknownDemon (ksFor : Bytes → Bytes → KeyStream) (s : Sessions) (agentId : Nat) (data : Bytes) :
    Sessions × Outcome :=
  let (cmd, p1) := (⟨data, true⟩ : Parser).parseInt32
  if cmd = Gen.Consts.DEMON_INIT then
    let (_, p2) := p1.parseInt32
    match handleInit ksFor s agentId p2.buf with
    | (s', .registered r) => (s', .reply r)
    | (s', .reconnected r) => (s', .reply r)
    | (s', .rejected) => (s', .rejected)
  else (s, .rejected)

/-- `parseAgentRequest`; requests of known agents and of registered third-party agents
    are `handled` (their content is modelled elsewhere) -/
def ingress (ksFor : Bytes → Bytes → KeyStream) (s : Sessions) (serviceMagic : Nat → Bool) (body : Bytes) :
    Sessions × Outcome :=
  match parseHeader body with
  | none => (s, .rejected)
  | some h =>
    if h.data.length < 4 then (s, .rejected)
    else if h.magic = Gen.Consts.DEMON_MAGIC_VALUE then
      if s.exist h.agentId then (s, .handled) else unknownDemon ksFor s h.agentId h.data
    else if serviceMagic h.magic then (s, .handled)
    else (s, .rejected)

/-- the `for CanIRead([int32,int32])` loop of `handleDemonAgent`: number of packages seen;
    `none` = fuel exhausted -/
def packageLoop : Nat → Parser → Nat → Option Nat
  | 0, _, _ => none
  | fuel + 1, p, n =>
    if p.canIRead [.int32, .int32] then
      let (cmd, p1) := p.parseInt32
      let (_, p2) := p1.parseInt32
      if cmd = Gen.Consts.COMMAND_GET_JOB then packageLoop fuel p2 (n + 1)
      else
        let (_, p3) := p2.parseBytes
        packageLoop fuel p3 (n + 1)
    else some n

end Havoc
