import HavocVerif.Gen.SqlSchema
/-
  Model of the persistence layer: SQLite column affinity as determined by the DECLARED
  column type (the rules of sqlite.org/datatype3.html §3.1), what binding a Go string /
  integer to such a column stores, and the tables of pkg/db as row lists with the
  insert-if-absent / update-if-present / delete operations of pkg/db/{agents,links,listeners}.go
  and the reload done by Teamserver.Start.
-/
namespace Havoc

inductive Affinity where | text | numeric | integer | real | blob
  deriving DecidableEq, Repr

def lower (c : Char) : Char := if 'A' ≤ c ∧ c ≤ 'Z' then Char.ofNat (c.toNat + 32) else c

def isPrefixL : List Char → List Char → Bool
  | [], _ => true
  | _ :: _, [] => false
  | a :: as, b :: bs => a == b && isPrefixL as bs

def isInfixL (pat : List Char) : List Char → Bool
  | [] => pat.isEmpty
  | c :: cs => isPrefixL pat (c :: cs) || isInfixL pat cs

def hasWord (decl : String) (w : String) : Bool := isInfixL w.toList (decl.toList.map lower)

/-- SQLite: INT → INTEGER; CHAR/CLOB/TEXT → TEXT; BLOB or empty → BLOB; REAL/FLOA/DOUB → REAL; else NUMERIC -/
def affinityOf (decl : String) : Affinity :=
  if hasWord decl "int" then .integer
  else if hasWord decl "char" ∨ hasWord decl "clob" ∨ hasWord decl "text" then .text
  else if hasWord decl "blob" ∨ decl.isEmpty then .blob
  else if hasWord decl "real" ∨ hasWord decl "floa" ∨ hasWord decl "doub" then .real
  else .numeric

inductive SqlVal where
  | int (v : Int) | text (s : String) | real (repr : String) | null
  deriving DecidableEq, Repr

def isDigitStr (s : List Char) : Bool := !s.isEmpty && s.all Char.isDigit

def digitsVal (s : List Char) : Nat := s.foldl (fun acc c => acc * 10 + (c.toNat - 48)) 0

/-- binding a Go string to a column: TEXT / BLOB affinity keep it; NUMERIC / INTEGER / REAL
    convert it when it looks like a number (modelled for the plain-integer case, which is
    enough to show that such a column does not preserve strings). -/
def storeString (aff : Affinity) (s : String) : SqlVal :=
  match aff with
  | .text | .blob => .text s
  | _ => if isDigitStr s.toList then .int (digitsVal s.toList) else .text s

/-- `Scan` into a Go string -/
def loadString : SqlVal → String
  | .text s => s
  | .int v => toString v
  | .real r => r
  | .null => ""

def storeInt (_ : Affinity) (v : Int) : SqlVal := .int v
def loadInt : SqlVal → Int
  | .int v => v
  | _ => 0

/-! ### tables -/

structure AgentRow where
  id : Nat
  active : Bool
  record : List String       -- the persisted fields other than id / active, as Go values rendered to strings
  deriving DecidableEq, Repr

structure Db where
  agents : List AgentRow := []
  links : List (Nat × Nat) := []
  listeners : List (String × String × String) := []    -- name, protocol, config
  deriving DecidableEq, Repr

def Db.agentExist (d : Db) (id : Nat) : Bool := d.agents.any (·.id == id)

/-- `db.AgentAdd`: insert unless a row with this id exists -/
def Db.agentAdd (d : Db) (id : Nat) (record : List String) : Db :=
  if d.agentExist id then d else { d with agents := d.agents ++ [⟨id, true, record⟩] }

/-- `db.AgentUpdate`: rewrite the row of this id (error, no change, when there is none) -/
def Db.agentUpdate (d : Db) (id : Nat) (active : Bool) (record : List String) : Db :=
  { d with agents := d.agents.map fun r => if r.id == id then ⟨id, active, record⟩ else r }

def Db.linkAdd (d : Db) (p c : Nat) : Db :=
  if d.links.contains (p, c) then d else { d with links := d.links ++ [(p, c)] }

def Db.linkRemove (d : Db) (p c : Nat) : Db := { d with links := d.links.filter (· ≠ (p, c)) }

/-- `db.ListenerAdd`: insert unless a listener of exactly this name exists -/
def Db.listenerAdd (d : Db) (name proto cfg : String) : Db :=
  if d.listeners.any (·.1 == name) then d else { d with listeners := d.listeners ++ [(name, proto, cfg)] }

def Db.listenerRemove (d : Db) (name : String) : Db :=
  { d with listeners := d.listeners.filter (·.1 ≠ name) }

/-- what `Teamserver.Start` reloads: active agents; for each, its parent and links restricted
    to reloaded agents; `dangling` = link rows naming a child that is not reloaded (Start
    would append a nil agent) -/
structure Restored where
  agents : List (Nat × List String)
  links : List (Nat × Nat)
  dangling : List (Nat × Nat)
  listeners : List (String × String × String)
  deriving DecidableEq, Repr

def Db.restore (d : Db) : Restored :=
  let act := d.agents.filter (·.active)
  let ids := act.map (·.id)
  { agents := act.map fun r => (r.id, r.record)
    links := d.links.filter fun (p, c) => ids.contains p && ids.contains c
    dangling := d.links.filter fun (p, c) => ids.contains p && !ids.contains c
    listeners := d.listeners }

/-- a pivot connect of a NEW agent as the statements it issues, in the order the source has them -/
def connectNewStmts (p c : Nat) (record : List String) : List (Db → Db) :=
  Gen.SqlSchema.connectNewCalls.filterMap fun call =>
    if call = "AgentAdd" then some (fun d => d.agentAdd c record)
    else if call = "LinkAdd" then some (fun d => d.linkAdd p c)
    else none

def applyStmts (d : Db) (ss : List (Db → Db)) : Db := ss.foldl (fun d s => s d) d

end Havoc
