import HavocVerif.Basic.GoM
import HavocVerif.Model.Parser
/-
  parser.go once more, statement by statement, with every Go slice expression
  checked (`goSlice`).  `Props/C01` proves that no reader faults on any buffer and
  that each agrees with the pure model in Model/Parser.lean.
-/
namespace Havoc.ParserGo
open Havoc

/-- `ParseInt32`:
      if p.Length() >= 4 { if p.Length() == 4 { copy(integer, p.buffer[:p.Length()]); p.buffer = []byte{} }
                           else { copy(integer, p.buffer[:4]); p.buffer = p.buffer[4:] } } -/
def parseInt32 (p : Parser) : GoM (Nat × Parser) :=
  if p.length ≥ 4 then
    if p.length = 4 then do
      let w ← goSlice p.buf 0 p.length
      pure (p.u32 w, { p with buf := [] })
    else do
      let w ← goSlice p.buf 0 4
      let r ← goSlice p.buf 4 p.length
      pure (p.u32 w, { p with buf := r })
  else pure (0, p)

def parseInt64 (p : Parser) : GoM (Nat × Parser) :=
  if p.length ≥ 8 then
    if p.length = 8 then do
      let w ← goSlice p.buf 0 p.length
      pure (p.u32 w, { p with buf := [] })
    else do
      let w ← goSlice p.buf 0 8
      let r ← goSlice p.buf 8 p.length
      pure (p.u32 w, { p with buf := r })
  else pure (0, p)

/-- `ParseBytes`: `BytesSize > uint(p.Length())` ? all : `p.buffer[:BytesSize], p.buffer[BytesSize:]` -/
def parseBytes (p : Parser) : GoM (Bytes × Parser) :=
  if p.length ≥ 4 then do
    let (size, p1) ← parseInt32 p
    if size > p1.length then do
      let d ← goSlice p1.buf 0 p1.length
      let r ← goSlice p1.buf p1.length p1.length
      pure (d, { p1 with buf := r })
    else do
      let d ← goSlice p1.buf 0 size
      let r ← goSlice p1.buf size p1.length
      pure (d, { p1 with buf := r })
  else pure ([], p)

def parseAtLeastBytes (p : Parser) (n : Nat) : GoM (Bytes × Parser) :=
  if n > p.length then do
    let d ← goSlice p.buf 0 p.length
    let r ← goSlice p.buf p.length p.length
    pure (d, { p with buf := r })
  else do
    let d ← goSlice p.buf 0 n
    let r ← goSlice p.buf n p.length
    pure (d, { p with buf := r })

/-- `CanIRead`'s only slice: `p.buffer[BytesRead:BytesRead+4]` under `TotalSize - BytesRead >= 4` -/
def canIReadFrom (p : Parser) : List ReadType → Nat → GoM Bool
  | [], _ => pure true
  | t :: ts, bytesRead =>
    let total := p.length
    match t with
    | .int32 | .bool =>
      if total - bytesRead < 4 then pure false else canIReadFrom p ts (bytesRead + 4)
    | .int64 | .pointer =>
      if total - bytesRead < 8 then pure false else canIReadFrom p ts (bytesRead + 8)
    | .bytes =>
      if total - bytesRead < 4 then pure false
      else do
        let w ← goSlice p.buf bytesRead (bytesRead + 4)
        let number := p.u32 w
        if total - (bytesRead + 4) < number then pure false
        else canIReadFrom p ts (bytesRead + 4 + number)

end Havoc.ParserGo
