import HavocVerif.Basic.Bytes
import HavocVerif.Gen.Consts
/-
  Model of the SOCKS5 front end: `SubNegotiationClient`, `ReadSocksHeader`,
  `CreateResponsePackage`, `SendConnectFailure` (teamserver/pkg/socks/util.go) and the
  handler installed by `socks add` (pkg/agent/demons.go) up to the CONNECT job.
  The client's bytes are one stream: the (fixed) readers consume exact counts, so the
  result depends on the concatenation of what the client sent only.
-/
namespace Havoc

inductive Rd (α : Type) where
  | ok (v : α) (rest : Bytes)
  | eof                       -- stream ended inside the message (connection closed / still waiting)
  | bad (why : String)        -- protocol error: the handler drops the connection without a reply
  deriving Repr

def readByte : Bytes → Rd UInt8
  | [] => .eof
  | b :: r => .ok b r

def readN (n : Nat) (s : Bytes) : Rd Bytes := if s.length < n then .eof else .ok (s.take n) (s.drop n)

def Rd.bind {α β : Type} (r : Rd α) (f : α → Bytes → Rd β) : Rd β :=
  match r with
  | .ok v rest => f v rest
  | .eof => .eof
  | .bad w => .bad w

/-- `SubNegotiationClient` -/
def subNegotiation (s : Bytes) : Rd Bytes :=
  (readByte s).bind fun ver r1 =>
    if ver ≠ 5 then .bad "version"
    else (readByte r1).bind fun n r2 => readN n.toNat r2

structure SocksReq where
  command : UInt8
  atyp : UInt8
  addr : Bytes
  port : Nat
  deriving DecidableEq, Repr

/-- `ReadSocksHeader`, byte by byte in the order of the source -/
def readSocksHeader (s : Bytes) : Rd SocksReq :=
  (readByte s).bind fun ver r1 =>
    if ver ≠ 5 then .bad "version"
    else (readByte r1).bind fun cmd r2 =>
      (readByte r2).bind fun rsv r3 =>
        if rsv ≠ 0 then .bad "rsv"
        else (readByte r3).bind fun atyp r4 =>
          let addrR : Rd Bytes :=
            if atyp = 1 then readN 4 r4
            else if atyp = 3 then (readByte r4).bind fun n r => readN n.toNat r
            else if atyp = 4 then readN 16 r4
            else .bad "atyp"
          addrR.bind fun addr r5 =>
            (readN 2 r5).bind fun p r6 => .ok ⟨cmd, atyp, addr, beNat p⟩ r6

/-- a port in network byte order -/
def portBytes (port : Nat) : Bytes := [UInt8.ofNat (port / 256 % 256), UInt8.ofNat (port % 256)]

/-- `CreateResponsePackage` -/
def createResponse (rep atyp : UInt8) (addr : Bytes) (port : Nat) : Bytes :=
  [5, rep, 0, atyp] ++ ((if atyp = 3 then [UInt8.ofNat addr.length] else []) ++ (addr ++ portBytes port))

/-- how a client reads a reply (RFC 1928 §6) -/
def parseReply (s : Bytes) : Option (UInt8 × UInt8 × Bytes × Nat) :=
  match s with
  | 5 :: rep :: 0 :: atyp :: rest =>
    let addrR : Option (Bytes × Bytes) :=
      if atyp = 1 then (if rest.length < 4 then none else some (rest.take 4, rest.drop 4))
      else if atyp = 4 then (if rest.length < 16 then none else some (rest.take 16, rest.drop 16))
      else if atyp = 3 then
        match rest with
        | n :: r => if r.length < n.toNat then none else some (r.take n.toNat, r.drop n.toNat)
        | [] => none
      else none
    match addrR with
    | some (addr, p) => if p.length = 2 then some (rep, atyp, addr, beNat p) else none
    | none => none
  | _ => none

/-- `SendConnectFailure`'s mapping of the agent's Winsock error code to a reply code -/
def failureReply (errorCode : Nat) : UInt8 :=
  if errorCode = 10060 then 6 else if errorCode = 10061 then 5 else if errorCode = 10065 then 4
  else if errorCode = 10051 then 3 else 1

inductive SocksOutcome where
  | waiting (sent : Bytes)                       -- more client bytes are needed; `sent` went out so far
  | dropped (sent : Bytes)                       -- connection abandoned after sending `sent`
  | connect (sent : Bytes) (req : SocksReq) (rest : Bytes)   -- CONNECT job queued for the agent
  deriving Repr, DecidableEq

/-- the handler of `socks add` on everything the client sends before the agent answers -/
def socksFrontEnd (stream : Bytes) : SocksOutcome :=
  match subNegotiation stream with
  | .eof => .waiting []
  | .bad _ => .dropped []
  | .ok methods rest =>
    if !methods.contains 0 then .dropped [5, 0xff]
    else
      match readSocksHeader rest with
      | .eof => .waiting [5, 0]
      | .bad _ => .dropped [5, 0]
      | .ok req rest2 =>
        if req.command ≠ 1 then .dropped ([5, 0] ++ [5, 7, 0, 1, 0, 0, 0, 0, 0, 0])
        else .connect [5, 0] req rest2

end Havoc
