import HavocVerif.Basic.Bytes
/-
  Model of teamserver/pkg/common/parser/parser.go, function by function.
  The Go parser is a cursor over a byte slice; every reader returns the value
  and the new parser.  Go's slice expressions `buf[:n]` / `buf[n:]` are only
  used where the surrounding test guarantees `n ≤ len(buf)`, and the model uses
  `take`/`drop` under exactly those tests (so no Go bounds panic is hidden:
  `parser_no_fault` in Props/C01 states the side conditions).
-/
namespace Havoc

inductive ReadType where
  | int32 | int64 | bytes | pointer | bool
  deriving DecidableEq, Repr, Inhabited

structure Parser where
  buf : Bytes
  bigEndian : Bool := true
  deriving DecidableEq, Repr

namespace Parser

def length (p : Parser) : Nat := p.buf.length

def u32 (p : Parser) (bs : Bytes) : Nat := if p.bigEndian then beNat bs else leNat bs

/-- `CanIRead`: walks the type list keeping `BytesRead`. -/
def canIReadFrom (p : Parser) : List ReadType → Nat → Bool
  | [], _ => true
  | t :: ts, bytesRead =>
    let total := p.length
    match t with
    | .int32 | .bool =>
      if total - bytesRead < 4 then false else canIReadFrom p ts (bytesRead + 4)
    | .int64 | .pointer =>
      if total - bytesRead < 8 then false else canIReadFrom p ts (bytesRead + 8)
    | .bytes =>
      if total - bytesRead < 4 then false
      else
        let number := p.u32 ((p.buf.drop bytesRead).take 4)
        if total - (bytesRead + 4) < number then false
        else canIReadFrom p ts (bytesRead + 4 + number)

def canIRead (p : Parser) (ts : List ReadType) : Bool := canIReadFrom p ts 0

/-- `ParseInt32`: 4 bytes when available, otherwise 0 and the cursor stays. -/
def parseInt32 (p : Parser) : Nat × Parser :=
  if p.length ≥ 4 then (p.u32 (p.buf.take 4), { p with buf := p.buf.drop 4 })
  else (0, p)

def parseInt64 (p : Parser) : Nat × Parser :=
  if p.length ≥ 8 then (p.u32 (p.buf.take 8), { p with buf := p.buf.drop 8 })
  else (0, p)

def parseBool (p : Parser) : Bool × Parser :=
  let (v, p') := p.parseInt32
  (v != 0, p')

/-- `ParseBytes`: length-prefixed, clamped to what is left. -/
def parseBytes (p : Parser) : Bytes × Parser :=
  if p.length ≥ 4 then
    let (size, p1) := p.parseInt32
    if size > p1.length then (p1.buf, { p1 with buf := [] })
    else (p1.buf.take size, { p1 with buf := p1.buf.drop size })
  else ([], p)

def parseAtLeastBytes (p : Parser) (n : Nat) : Bytes × Parser :=
  if n > p.length then (p.buf, { p with buf := [] })
  else (p.buf.take n, { p with buf := p.buf.drop n })

end Parser

/-- `bytes.Trim(s, "\x00")`: strip NUL bytes at both ends. -/
def stripNull (bs : Bytes) : Bytes :=
  ((bs.dropWhile (· == 0)).reverse.dropWhile (· == 0)).reverse

/-! ### reference encoder: the Demon's `Package.c` (big-endian) -/

inductive Field where
  | int32 (v : Nat)
  | int64 (v : Nat)
  | bool (b : Bool)
  | bytes (d : Bytes)
  | pointer (v : Nat)
  deriving DecidableEq, Repr

def Field.kind : Field → ReadType
  | .int32 _ => .int32 | .int64 _ => .int64 | .bool _ => .bool
  | .bytes _ => .bytes | .pointer _ => .pointer

def Field.wf : Field → Prop
  | .int32 v => v < 4294967296
  | .int64 v => v < 18446744073709551616
  | .pointer v => v < 18446744073709551616
  | .bool _ => True
  | .bytes d => d.length < 4294967296

instance (f : Field) : Decidable f.wf := by
  cases f <;> simp only [Field.wf] <;> infer_instance

def Field.encode : Field → Bytes
  | .int32 v => be32 v
  | .int64 v => be64 v
  | .pointer v => be64 v
  | .bool b => be32 (if b then 1 else 0)
  | .bytes d => be32 d.length ++ d

def encodeFields (fs : List Field) : Bytes := fs.flatMap Field.encode

/-- read one field of the given kind -/
def Parser.readField (p : Parser) : ReadType → Field × Parser
  | .int32 => let (v, q) := p.parseInt32; (.int32 v, q)
  | .int64 => let (v, q) := p.parseInt64; (.int64 v, q)
  | .pointer => let (v, q) := p.parseInt64; (.pointer v, q)
  | .bool => let (v, q) := p.parseBool; (.bool v, q)
  | .bytes => let (v, q) := p.parseBytes; (.bytes v, q)

def Parser.readFields (p : Parser) : List ReadType → List Field × Parser
  | [] => ([], p)
  | t :: ts =>
    let (f, q) := p.readField t
    let (fs, r) := q.readFields ts
    (f :: fs, r)

end Havoc
