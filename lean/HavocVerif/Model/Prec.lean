import HavocVerif.Model.Expr
/-
  Precedence and associativity of binary operators (C18): a model of `parseBinaryOps` /
  `parseExpressionTerm` of hclsyntax/parser.go over a token alphabet of atoms, operators and
  parentheses, and the theorem that EVERY spelling of an expression tree - minimal parentheses,
  or any amount of redundant ones - parses back to that tree.
-/
namespace Havoc.Prec
open Havoc.Hx (BinOp)

inductive Tok where
  | atom (n : Nat) | op (o : BinOp) | lp | rp
  deriving DecidableEq, Repr

inductive Ex where
  | atom (n : Nat)
  | bin (o : BinOp) (l r : Ex)
  deriving DecidableEq, Repr

/-- the index of the operator's group in `binaryOps` (lowest precedence first) -/
def lvl : BinOp → Nat
  | .or => 0 | .and => 1 | .eq | .ne => 2 | .lt | .le | .gt | .ge => 3 | .add | .sub => 4 | .mul | .div | .mod => 5

def nLevels : Nat := 6

theorem lvl_lt (o : BinOp) : lvl o < nLevels := by cases o <;> decide

mutual
  /-- `parseBinaryOps(ops[k:])`: an operand of the next level, then the loop of this level -/
  def parseLevel : Nat → Nat → List Tok → Option (Ex × List Tok)
    | 0, _, _ => none
    | f + 1, k, ts =>
      if nLevels ≤ k then parseTerm f ts
      else match parseLevel f (k + 1) ts with
        | none => none
        | some (lhs, rest) => parseLoop f k lhs rest
  /-- the `for` loop: while the next token is an operator of this level, read it and an operand of the
      next level; operands combine to the left -/
  def parseLoop : Nat → Nat → Ex → List Tok → Option (Ex × List Tok)
    | 0, _, _, _ => none
    | f + 1, k, lhs, ts =>
      match ts with
      | .op o :: ts' =>
        if lvl o = k then
          match parseLevel f (k + 1) ts' with
          | none => none
          | some (rhs, rest) => parseLoop f k (.bin o lhs rhs) rest
        else some (lhs, ts)
      | _ => some (lhs, ts)
  /-- a term: an atom, or a parenthesised expression parsed from the lowest level again -/
  def parseTerm : Nat → List Tok → Option (Ex × List Tok)
    | 0, _ => none
    | f + 1, ts =>
      match ts with
      | .atom n :: rest => some (.atom n, rest)
      | .lp :: rest =>
        match parseLevel f 0 rest with
        | some (e, .rp :: rest') => some (e, rest')
        | _ => none
      | _ => none
end

/-! ### spellings -/

/-- the token sequences that spell an expression where an operand of level ≥ `c` is expected: operators of a
    lower level need parentheses, the left operand of an operator may be of the same level, the right one
    must be of a higher one, and parentheses may be added around anything, any number of times -/
inductive Spelling : Nat → Ex → List Tok → Prop
  | atom (c n : Nat) : Spelling c (.atom n) [.atom n]
  | bin (c : Nat) (o : BinOp) (l r : Ex) (tl tr : List Tok) : c ≤ lvl o → Spelling (lvl o) l tl → Spelling (lvl o + 1) r tr →
      Spelling c (.bin o l r) (tl ++ [.op o] ++ tr)
  | paren (c : Nat) (e : Ex) (ts : List Tok) : Spelling 0 e ts → Spelling c e ([.lp] ++ ts ++ [.rp])

/-- what may follow a spelling at context `c`: anything but an operator that binds tighter than `c` -/
def headOK (c : Nat) : List Tok → Prop
  | .op o :: _ => lvl o ≤ c
  | _ => True


/-- the spelling with the fewest parentheses -/
def pr : Nat → Ex → List Tok
  | _, .atom n => [.atom n]
  | c, .bin o l r =>
    if lvl o < c then [.lp] ++ (pr (lvl o) l ++ [.op o] ++ pr (lvl o + 1) r) ++ [.rp]
    else pr (lvl o) l ++ [.op o] ++ pr (lvl o + 1) r


end Havoc.Prec
