import HavocVerif.Basic.Bytes
/-
  Source ranges by byte offset (yaotl/pos.go: RangeBetween, RangeOver, Overlap) and the two
  structural notions C17 is about: a token stream that covers its input, and a tree whose
  children lie inside their parents.
-/
namespace Havoc.Rg

structure R where
  lo : Nat
  hi : Nat
  deriving DecidableEq, Repr

def R.empty (r : R) : Bool := r.lo == r.hi
def R.within (a b : R) : Prop := b.lo ≤ a.lo ∧ a.hi ≤ b.hi
instance (a b : R) : Decidable (a.within b) := by unfold R.within; exact inferInstance

def rangeBetween (s e : R) : R := ⟨s.lo, e.hi⟩

def rangeOver (a b : R) : R :=
  if a.empty then b else if b.empty then a
  else ⟨if a.lo < b.lo then a.lo else b.lo, if a.hi > b.hi then a.hi else b.hi⟩

/-! ### tokens -/

structure Tok where
  ty : String
  lo : Nat
  hi : Nat
  bytes : Bytes
  deriving Repr

/-- in source order, without overlap, inside the input, each carrying the input bytes of its range -/
def covers (inp : Bytes) : Nat → List Tok → Bool
  | pos, [] => pos ≤ inp.length
  | pos, t :: rest => pos ≤ t.lo && t.lo ≤ t.hi && t.hi ≤ inp.length && t.bytes == (inp.drop t.lo).take (t.hi - t.lo) && covers inp t.hi rest

/-- the input put together again from the tokens and what lies between them -/
def rebuild (inp : Bytes) : Nat → List Tok → Bytes
  | pos, [] => inp.drop pos
  | pos, t :: rest => (inp.drop pos).take (t.lo - pos) ++ t.bytes ++ rebuild inp t.hi rest

/-- what the lexer skipped -/
def gaps (inp : Bytes) : Nat → List Tok → List Bytes
  | pos, [] => [inp.drop pos]
  | pos, t :: rest => (inp.drop pos).take (t.lo - pos) :: gaps inp t.hi rest

/-! ### trees of ranges -/

inductive Tree where
  | node (r : R) (kids : List Tree)
  deriving Repr

def Tree.range : Tree → R
  | .node r _ => r

mutual
  /-- every child lies inside its parent, recursively -/
  def nested : Tree → Bool
    | .node r kids => nestedKids r kids
  def nestedKids (r : R) : List Tree → Bool
    | [] => true
    | k :: ks => decide (k.range.within r) && nested k && nestedKids r ks
end

mutual
  def ranges : Tree → List R
    | .node r kids => r :: rangesKids kids
  def rangesKids : List Tree → List R
    | [] => []
    | k :: ks => ranges k ++ rangesKids ks
end

end Havoc.Rg
