import HavocVerif.Model.Http
/-
  Model of the third-party service endpoint (teamserver/pkg/service/service.go):
  `handleConnection` / `authenticate` / `routine` / `dispatch` (registrations) / `ClientClose`.
  One websocket message has two readings: as the handshake request (`hs`: the fields
  `authenticate` decodes, `none` when ReadJSON fails) and as a request (`req`).
  `H` is the digest both sides are hashed with (SHA3-256 in the code); nothing about it is assumed.
-/
namespace Havoc

structure SvcHello where
  type : Str
  pass : Str
  deriving DecidableEq, Repr

inductive SvcReq where
  | registerAgent (name : Str)
  | listenerAdd (name : Str)
  | exc2 (name : Str) (endpoint : Str)
  | other
  deriving DecidableEq, Repr

inductive SvcConn where
  | fresh | authed | closed
  deriving DecidableEq, Repr

structure Svc where
  conns : List (Nat × SvcConn) := []
  agents : List (Str × Nat) := []        -- registered agent type ↦ owning connection
  listeners : List (Str × Nat) := []     -- service-defined listener kinds
  endpoints : List (Str × Str × Nat) := []  -- External-C2: (listener name, endpoint, owner)
  replies : List (Nat × Bool) := []      -- handshake answers sent (connection, Success)

inductive SvcOp where
  | connect (c : Nat)
  | message (c : Nat) (hs : Option SvcHello) (req : SvcReq)
  | close (c : Nat)

def headRegister : Str := "Register".toList

def Svc.stateOf (s : Svc) (c : Nat) : Option SvcConn := s.conns.lookup c
def Svc.setState (s : Svc) (c : Nat) (st : SvcConn) : Svc :=
  { s with conns := (c, st) :: s.conns.filter (·.1 ≠ c) }

/-- `authenticate`: the connection is accepted iff the message decodes, is of type Register
    and the digest of its password equals the digest of the configured one -/
def svcAuth (H : Str → Str) (pw : Str) : Option SvcHello → Option Bool   -- the reply, if any
  | none => none
  | some m => if m.type = headRegister then some (H m.pass == H pw) else none

/-- `ClientClose`: everything the connection registered goes, nothing else -/
def Svc.dropOwner (s : Svc) (c : Nat) : Svc :=
  { s with agents := s.agents.filter (·.2 ≠ c), listeners := s.listeners.filter (·.2 ≠ c),
           endpoints := s.endpoints.filter (·.2.2 ≠ c) }

def Svc.dispatch (s : Svc) (c : Nat) : SvcReq → Svc
  | .registerAgent n => if s.agents.any (·.1 == n) then s else { s with agents := s.agents ++ [(n, c)] }
  | .listenerAdd n => if s.listeners.any (·.1 == n) then s else { s with listeners := s.listeners ++ [(n, c)] }
  | .exc2 n e => if s.endpoints.any (fun x => x.1 == n || x.2.1 == e) then s else { s with endpoints := s.endpoints ++ [(n, e, c)] }
  | .other => s

def svcStep (H : Str → Str) (pw : Str) (s : Svc) : SvcOp → Svc
  | .connect c => if (s.stateOf c).isSome then s else s.setState c .fresh
  | .message c hs req =>
    match s.stateOf c with
    | some .fresh =>
      match svcAuth H pw hs with
      | some true => { s.setState c .authed with replies := s.replies ++ [(c, true)] }
      | some false => { s.setState c .closed with replies := s.replies ++ [(c, false)] }
      | none => s.setState c .closed
    | some .authed => s.dispatch c req
    | _ => s
  | .close c =>
    match s.stateOf c with
    | some .authed => (s.dropOwner c).setState c .closed
    | some .fresh => s.setState c .closed
    | _ => s

def svcRun (H : Str → Str) (pw : Str) (ops : List SvcOp) : Svc := ops.foldl (svcStep H pw) {}

end Havoc
