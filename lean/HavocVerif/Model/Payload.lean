import HavocVerif.Basic.Bytes
import HavocVerif.Gen.Consts
import HavocVerif.Gen.Demon
/-
  Model of `agent.BuildPayloadMessage` (teamserver/pkg/agent/agent.go), of the
  per-task encryption `crypt.XCryptBytesAES256` (abstracted to a keystream), and
  of the Demon side that consumes the bytes: `Parser.c` (little endian) and the
  task loop of `CommandDispatcher` in payloads/Demon/src/core/Command.c.
-/
namespace Havoc

/-- AES-256-CTR under a fixed key/IV is "xor with a keystream that restarts at
    offset 0 for every call"; the theorems hold for every keystream. -/
abbrev KeyStream := Nat → UInt8

def xcryptFrom (ks : KeyStream) : Nat → Bytes → Bytes
  | _, [] => []
  | i, b :: bs => (b ^^^ ks i) :: xcryptFrom ks (i + 1) bs

/-- `XCryptBytesAES256(data, key, iv)`: a fresh CTR stream per call. -/
def xcrypt (ks : KeyStream) (bs : Bytes) : Bytes := xcryptFrom ks 0 bs

/-- the eleven Go dynamic types `BuildPayloadMessage` / `GetQueuedJobs` switch over;
    numeric payloads are the unsigned bit patterns. -/
inductive Arg where
  | int (v : Nat) | int64 (v : Nat) | uint64 (v : Nat) | int32 (v : Nat) | uint32 (v : Nat)
  | int16 (v : Nat) | uint16 (v : Nat) | str (s : Bytes) | bytes (b : Bytes) | byte (b : UInt8)
  | bool (b : Bool)
  deriving DecidableEq, Repr

def endsWithNul (s : Bytes) : Bool := s.getLast? == some 0

/-- strings get a NUL terminator unless they already end in one -/
def cstr (s : Bytes) : Bytes := if endsWithNul s then s else s ++ [0]

def Arg.encode : Arg → Bytes
  | .int v | .int32 v | .uint32 v => le32 (v % 4294967296)
  | .int64 v | .uint64 v => le64 (v % 18446744073709551616)
  | .int16 v | .uint16 v => le16 (v % 65536)
  | .str s => le32 ((cstr s).length % 4294967296) ++ cstr s
  | .bytes b => le32 (b.length % 4294967296) ++ b
  | .byte b => [b]
  | .bool b => le32 (if b then 1 else 0)

/-- the size accounting of `GetQueuedJobs` (NOTE: strings are counted without the terminator) -/
def Arg.queueSize : Arg → Nat
  | .int _ | .int32 _ | .uint32 _ | .bool _ => 4
  | .int64 _ | .uint64 _ => 8
  | .int16 _ | .uint16 _ => 2
  | .str s => 4 + s.length
  | .bytes b => 4 + b.length
  | .byte _ => 1

/-- the Go dynamic type of an argument, as the type switches of agent.go spell it -/
def Arg.goType : Arg → String
  | .int _ => "int" | .int64 _ => "int64" | .uint64 _ => "uint64" | .int32 _ => "int32" | .uint32 _ => "uint32"
  | .int16 _ => "int16" | .uint16 _ => "uint16" | .str _ => "string" | .bytes _ => "[]byte" | .byte _ => "byte"
  | .bool _ => "bool"

/-- `len(job.Data[i].(T))` for the two variable-length types -/
def Arg.goLen : Arg → Nat
  | .str s => s.length | .bytes b => b.length | _ => 0

structure Job where
  command : Nat
  requestId : Nat
  data : List Arg
  deriving DecidableEq, Repr

def Job.body (j : Job) : Bytes := j.data.flatMap Arg.encode

/-- one `[cmd][request id][size][encrypted body]` frame -/
def Job.frame (ks : KeyStream) (j : Job) : Bytes :=
  le32 (j.command % 4294967296) ++ le32 (j.requestId % 4294967296) ++
    le32 (j.body.length % 4294967296) ++ (if j.body.length > 0 then xcrypt ks j.body else [])

def buildPayload (ks : KeyStream) (jobs : List Job) : Bytes := jobs.flatMap (Job.frame ks)

/-! ### the Demon side -/

/-- `ParserGetInt32` (little endian; 0 and no movement when fewer than 4 bytes are left) -/
def cGetInt32 (p : Bytes) : Nat × Bytes :=
  if p.length < 4 then (0, p) else (leNat (p.take 4), p.drop 4)

def cGetInt64 (p : Bytes) : Nat × Bytes :=
  if p.length < 8 then (0, p) else (leNat (p.take 8), p.drop 8)

def cGetInt16 (p : Bytes) : Nat × Bytes :=
  if p.length < 2 then (0, p) else (leNat (p.take 2), p.drop 2)

def cGetByte (p : Bytes) : UInt8 × Bytes :=
  match p with
  | [] => (0, [])
  | b :: r => (b, r)

/-- `ParserGetBytes`: `none` is the C out-of-bounds case (the UINT32 `Length`
    underflows when the length prefix exceeds what is left). -/
def cGetBytes (p : Bytes) : Option (Bytes × Bytes) :=
  if p.length < 4 then some ([], p)
  else
    let n := leNat (p.take 4)
    let q := p.drop 4
    if n > q.length then none else some (q.take n, q.drop n)

structure Task where
  command : Nat
  requestId : Nat
  body : Bytes          -- decrypted task buffer as the command handler sees it
  deriving DecidableEq, Repr

/-- the `do { … } while ( Parser.Length <op> <n> )` loop of `CommandDispatcher`
    (operator and bound regenerated from Command.c into `Gen.Demon.dispatcherContinue`).
    `none` = C out-of-bounds read; fuel is the buffer length + 1 (never exhausted,
    see `demonDispatch_fuel`). -/
def demonLoop (ks : KeyStream) : Nat → Bytes → List Task → Option (List Task)
  | 0, _, _ => none
  | fuel + 1, p, acc =>
    let (cmd, p1) := cGetInt32 p
    let (req, p2) := cGetInt32 p1
    match cGetBytes p2 with
    | none => none
    | some (body, p3) =>
      let acc' := if cmd ≠ Gen.Consts.COMMAND_NOJOB then
          acc ++ [⟨cmd, req, if body.length ≠ 0 then xcrypt ks body else []⟩] else acc
      if Gen.Demon.dispatcherContinue p3.length then demonLoop ks fuel p3 acc' else some acc'

def demonDispatch (ks : KeyStream) (p : Bytes) : Option (List Task) :=
  demonLoop ks (p.length + 1) p []

def Job.view (j : Job) : Task := ⟨j.command, j.requestId, j.body⟩

/-! ### what a command handler reads from a task body -/

inductive CKind where
  | int32 | int64 | int16 | byte | bytes | bool
  deriving DecidableEq, Repr

inductive CVal where
  | int32 (v : Nat) | int64 (v : Nat) | int16 (v : Nat) | byte (b : UInt8) | bytes (b : Bytes)
  | bool (b : Bool)
  deriving DecidableEq, Repr

def demonRead : List CKind → Bytes → Option (List CVal × Bytes)
  | [], p => some ([], p)
  | .int32 :: ks, p => let (v, q) := cGetInt32 p; (demonRead ks q).map fun (vs, r) => (.int32 v :: vs, r)
  | .bool :: ks, p => let (v, q) := cGetInt32 p; (demonRead ks q).map fun (vs, r) => (.bool (v != 0) :: vs, r)
  | .int64 :: ks, p => let (v, q) := cGetInt64 p; (demonRead ks q).map fun (vs, r) => (.int64 v :: vs, r)
  | .int16 :: ks, p => let (v, q) := cGetInt16 p; (demonRead ks q).map fun (vs, r) => (.int16 v :: vs, r)
  | .byte :: ks, p => let (v, q) := cGetByte p; (demonRead ks q).map fun (vs, r) => (.byte v :: vs, r)
  | .bytes :: ks, p =>
    match cGetBytes p with
    | none => none
    | some (b, q) => (demonRead ks q).map fun (vs, r) => (.bytes b :: vs, r)

/-- the kind a Demon handler must use to read an argument, and the value it then sees -/
def Arg.ckind : Arg → CKind
  | .int _ | .int32 _ | .uint32 _ => .int32
  | .int64 _ | .uint64 _ => .int64
  | .int16 _ | .uint16 _ => .int16
  | .str _ | .bytes _ => .bytes
  | .byte _ => .byte
  | .bool _ => .bool

def Arg.cview : Arg → CVal
  | .int v | .int32 v | .uint32 v => .int32 (v % 4294967296)
  | .int64 v | .uint64 v => .int64 (v % 18446744073709551616)
  | .int16 v | .uint16 v => .int16 (v % 65536)
  | .str s => .bytes (cstr s)
  | .bytes b => .bytes b
  | .byte b => .byte b
  | .bool b => .bool b

def Arg.wf : Arg → Prop
  | .str s => (cstr s).length < 4294967296
  | .bytes b => b.length < 4294967296
  | _ => True

end Havoc
