import HavocVerif.Basic.Bytes
/-
  Model of a quoted string literal of the yaotl dialect without interpolation
  (hclsyntax/scan_string_lit.go + ParseStringLiteralToken in hclsyntax/parser.go):
  source bytes between the quotes ↦ the string's bytes, or `none` when the literal is refused
  or is not a plain literal (an interpolation / directive starts, a bare quote or newline).

  Escapes of this dialect: \n \r \t \" \\ , \x followed by hexadecimal digits (greedy; pairs
  are decoded, an odd last digit is dropped), $${ and %%{ for a literal ${ and %{.
  \u and \U are not usable in this dialect and are refused here.
-/
namespace Havoc.StrLit

def isHex (b : UInt8) : Bool :=
  (48 ≤ b && b ≤ 57) || (97 ≤ b && b ≤ 102) || (65 ≤ b && b ≤ 70)

def hexVal8 (b : UInt8) : Nat :=
  if 48 ≤ b && b ≤ 57 then b.toNat - 48
  else if 97 ≤ b && b ≤ 102 then b.toNat - 87
  else b.toNat - 55

/-- hex.DecodeString keeping what was decoded before an odd tail -/
def decodePairs : List UInt8 → Bytes
  | a :: b :: rest => UInt8.ofNat (hexVal8 a * 16 + hexVal8 b) :: decodePairs rest
  | _ => []

def hexRun : List UInt8 → List UInt8 × List UInt8
  | [] => ([], [])
  | b :: rest => if isHex b then let (h, r) := hexRun rest; (b :: h, r) else ([], b :: rest)

theorem hexRun_length (l : List UInt8) : (hexRun l).2.length ≤ l.length := by
  induction l with
  | nil => simp [hexRun]
  | cons b rest ih =>
    simp only [hexRun]
    split
    · simp only [List.length_cons]; omega
    · simp

def unquote (fuel : Nat) (src : List UInt8) : Option Bytes :=
  match fuel with
  | 0 => none
  | fuel + 1 =>
    match src with
    | [] => some []
    | 92 :: c :: rest =>                                 -- backslash
      if c = 110 then (unquote fuel rest).map (10 :: ·)
      else if c = 114 then (unquote fuel rest).map (13 :: ·)
      else if c = 116 then (unquote fuel rest).map (9 :: ·)
      else if c = 34 then (unquote fuel rest).map (34 :: ·)
      else if c = 92 then (unquote fuel rest).map (92 :: ·)
      else if c = 120 then
        let (h, r) := hexRun rest
        (unquote fuel r).map (decodePairs h ++ ·)
      else none
    | [92] => none
    | 36 :: 36 :: 123 :: rest => (unquote fuel rest).map ([36, 123] ++ ·)      -- $${
    | 37 :: 37 :: 123 :: rest => (unquote fuel rest).map ([37, 123] ++ ·)      -- %%{
    | 36 :: 123 :: _ => none                              -- an interpolation starts
    | 37 :: 123 :: _ => none                              -- a directive starts
    | 34 :: _ => none                                     -- the literal would end here
    | 10 :: _ => none
    | 13 :: _ => none
    | b :: rest => (unquote fuel rest).map (b :: ·)

/-! ### spellings -/

def hexDigit8 (n : Nat) : UInt8 := if n < 10 then UInt8.ofNat (48 + n) else UInt8.ofNat (87 + n)

/-- every byte as \xHH: the spelling that exists for every byte string -/
def spellHex : Bytes → List UInt8
  | [] => []
  | b :: rest => [92, 120, hexDigit8 (b.toNat / 16), hexDigit8 (b.toNat % 16)] ++ spellHex rest

/-- the readable spelling: the five short escapes, $${ / %%{ for ${ / %{, everything else raw -/
def spellPlain : Bytes → List UInt8
  | [] => []
  | 36 :: 123 :: rest => [36, 36, 123] ++ spellPlain rest
  | 37 :: 123 :: rest => [37, 37, 123] ++ spellPlain rest
  | b :: rest =>
    (if b = 10 then [92, 110] else if b = 13 then [92, 114] else if b = 9 then [92, 116]
     else if b = 34 then [92, 34] else if b = 92 then [92, 92] else [b]) ++ spellPlain rest

end Havoc.StrLit
