import HavocVerif.Model.Payload
/-
  Model of `Agent.PivotAddJob` (teamserver/pkg/agent/agent.go) and of what each
  SMB hop of the Demon does with the layer it receives
  (`CommandPivot / DEMON_PIVOT_SMB_COMMAND` in Command.c, `SmbRecv` in TransportSmb.c).
-/
namespace Havoc

structure Hop where
  id : Nat
  ks : KeyStream

/-- `Packer.AddInt32(id); Packer.AddBytes(payload)` -/
def packerFrame (id : Nat) (payload : Bytes) : Bytes :=
  le32 (id % 4294967296) ++ le32 (payload.length % 4294967296) ++ payload

/-- the `COMMAND_PIVOT / DEMON_PIVOT_SMB_COMMAND` job that carries one layer -/
def pivotJob (id : Nat) (payload : Bytes) : Job :=
  ⟨Gen.Consts.COMMAND_PIVOT, 0,
    [.int Gen.Consts.DEMON_PIVOT_SMB_COMMAND, .uint32 id, .bytes (packerFrame id payload)]⟩

/-- `PivotAddJob`: hops ordered from the target upwards (target first, then its parent, …,
    the pivot directly below the root last); result = the job queued on the root. -/
def wrapHops : List Hop → Job → Job
  | [], j => j
  | h :: hs, j => wrapHops hs (pivotJob h.id (buildPayload h.ks [j]))

/-- `SmbRecv`: `[DemonId][PackageSize][payload]`, rejected unless addressed to this hop -/
def smbRecv (id : Nat) (pipe : Bytes) : Option Bytes :=
  if pipe.length ≤ 8 then none
  else if leNat (pipe.take 4) ≠ id then none
  else
    let n := leNat ((pipe.drop 4).take 4)
    if n > (pipe.drop 8).length then none else some ((pipe.drop 8).take n)

/-- what a hop does with the bytes written to its pipe: read the frame, run the task loop -/
def hopRecv (h : Hop) (pipe : Bytes) : Option (List Task) :=
  match smbRecv h.id pipe with
  | none => none
  | some payload => demonDispatch h.ks payload

/-- `CommandPivot / DEMON_PIVOT_SMB_COMMAND` on a relaying hop: the id of the pivot to hand
    the data to, and the data -/
def relayOf (t : Task) : Option (Nat × Bytes) :=
  if t.command ≠ Gen.Consts.COMMAND_PIVOT then none
  else
    match demonRead [.int32, .int32, .bytes] t.body with
    | some ([.int32 sub, .int32 id, .bytes data], _) =>
      if sub = Gen.Consts.DEMON_PIVOT_SMB_COMMAND ∧ data.length ≠ 0 then some (id, data) else none
    | _ => none

/-- follow a layer down a chain of hops (top-most pivot first): each hop must be the one
    named by the layer above, decrypts with its own key, and finds exactly one task -/
def deliverDown : List Hop → Task → Option Task
  | [], t => some t
  | h :: hs, t =>
    match relayOf t with
    | none => none
    | some (id, data) =>
      if id ≠ h.id then none
      else
        match hopRecv h data with
        | some [t'] => deliverDown hs t'
        | _ => none

end Havoc
