import HavocVerif.Model.Path
import HavocVerif.Model.Parser
/-
  Model of the loot writers: `Agent.DownloadAdd / DownloadWrite / DownloadClose`
  (pkg/agent/agent.go), the five writers of pkg/logr/demon.go, over a small file system
  (directories, files with contents, write handles with offsets).
-/
namespace Havoc

inductive Node where | dir | file (content : Bytes)
  deriving DecidableEq, Repr

/-- absolute paths as component lists -/
abbrev Fs := List (List Bytes × Node)

def Fs.get (fs : Fs) (p : List Bytes) : Option Node := fs.lookup p
def Fs.set (fs : Fs) (p : List Bytes) (n : Node) : Fs := (p, n) :: fs.filter (·.1 ≠ p)

def validName (c : Bytes) : Bool := c ≠ [] ∧ c ≠ [dot] ∧ c ≠ [dot, dot] ∧ ¬ c.contains 0 ∧ c.length ≤ 255

def prefixes {α : Type} (l : List α) : List (List α) := (List.range (l.length + 1)).map (l.take ·)

/-- `os.MkdirAll`: create every missing directory on the way; fails (creating what it could)
    at a component that is not a valid name or is an existing file -/
def Fs.mkdirAll (fs : Fs) (p : List Bytes) : Fs × Bool :=
  (prefixes p).foldl (fun (acc : Fs × Bool) q =>
    if !acc.2 ∨ q = [] then acc
    else match acc.1.get q with
      | some .dir => acc
      | some (.file _) => (acc.1, false)
      | none => if validName (q.getLast?.getD []) then (acc.1.set q .dir, true) else (acc.1, false)) (fs, true)

/-- `os.MkdirAll` on a path that may still contain `.` / `..` / empty components, resolved
    the way the OS resolves them: `..` steps to the parent of a directory that exists by then -/
def Fs.mkdirWalk (fs : Fs) (comps : List Bytes) : Fs × Bool :=
  let r := comps.foldl (fun (acc : Fs × List Bytes × Bool) c =>
    let (f, cur, ok) := acc
    if !ok then acc
    else if c = [] ∨ c = [dot] then acc
    else if c = [dot, dot] then (f, cur.dropLast, true)
    else
      let nxt := cur ++ [c]
      match f.get nxt with
      | some .dir => (f, nxt, true)
      | some (.file _) => (f, cur, false)
      | none => if validName c then (f.set nxt .dir, nxt, true) else (f, cur, false)) (fs, [], true)
  (r.1, r.2.2)

/-- `os.Mkdir` of one directory whose parent must exist -/
def Fs.mkdir (fs : Fs) (p : List Bytes) : Fs × Bool :=
  match fs.get p with
  | some _ => (fs, false)
  | none =>
    if fs.get p.dropLast = some .dir ∧ validName (p.getLast?.getD []) then (fs.set p .dir, true) else (fs, false)

/-- `os.Create`: truncate / create a regular file whose parent directory exists -/
def Fs.create (fs : Fs) (p : List Bytes) : Fs × Bool :=
  if ¬ validName (p.getLast?.getD []) then (fs, false)
  else if fs.get p.dropLast ≠ some .dir then (fs, false)
  else match fs.get p with
    | some .dir => (fs, false)
    | _ => (fs.set p (.file []), true)

/-- the directory a path prefix resolves to, the way the OS walks it: every component that is
    walked through must be an existing directory at that moment, also one that a later `..` leaves again -/
def Fs.resolveDir (fs : Fs) : List Bytes → List Bytes → Option (List Bytes)
  | cur, [] => some cur
  | cur, c :: cs =>
    if c = [] ∨ c = [dot] then fs.resolveDir cur cs
    else if c = [dot, dot] then fs.resolveDir cur.dropLast cs
    else if fs.get (cur ++ [c]) = some .dir then fs.resolveDir (cur ++ [c]) cs else none

/-- `os.Create` on a path that may contain `.` / `..` / empty components (a trailing slash leaves an
    empty last component: not a file name) -/
def Fs.createWalk (fs : Fs) (comps : List Bytes) : Fs × Bool :=
  match comps.getLast? with
  | none => (fs, false)
  | some last =>
    match fs.resolveDir [] comps.dropLast with
    | none => (fs, false)
    | some d => fs.create (d ++ [last])

/-- write through a handle at its offset (a file truncated under the handle is zero-filled) -/
def Fs.writeAt (fs : Fs) (p : List Bytes) (off : Nat) (data : Bytes) : Fs :=
  match fs.get p with
  | some (.file c) =>
    let c' := if off ≤ c.length then c.take off ++ data ++ c.drop (off + data.length)
              else c ++ List.replicate (off - c.length) 0 ++ data
    fs.set p (.file c')
  | _ => fs

def Fs.append (fs : Fs) (p : List Bytes) (data : Bytes) : Fs × Bool :=
  match fs.get p with
  | some (.file c) => (fs.set p (.file (c ++ data)), true)
  | some .dir => (fs, false)
  | none =>
    if fs.get p.dropLast = some .dir ∧ validName (p.getLast?.getD []) then (fs.set p (.file data), true) else (fs, false)

/-- split a slash path into its non-empty components (an absolute directory prefix) -/
def compsOf (p : Bytes) : List Bytes := (splitByte slash p).filter (· ≠ [])

structure Download where
  fileId : Nat
  path : List Bytes      -- local file
  offset : Nat
  deriving DecidableEq, Repr

structure LootAgent where
  id : Bytes             -- NameID (8 hex digits)
  downloads : List Download := []
  deriving Repr

def dlDirStr (agentsDir : List Bytes) (a : LootAgent) : Bytes :=
  slash :: joinByte slash (agentsDir ++ [a.id, asciiBytes "Download"])

/-- `DemonDownload`: the download directory plus the directory part of the reported name
    (backslashes turned into slashes) -/
def dlTarget (agentsDir : List Bytes) (a : LootAgent) (filePath : Bytes) : Bytes :=
  dlDirStr agentsDir a ++ [slash] ++
    joinByte slash (splitByte slash (joinByte slash (splitByte backslash filePath))).dropLast

def dlFile (filePath : Bytes) : Bytes :=
  (splitByte slash (joinByte slash (splitByte backslash filePath))).getLast?.getD []

/-- `DownloadAdd(FileID, FilePath, _)`; `agentsDir` = components of Logr.AgentPath.
    MkdirAll / Create act on the cleaned path (the one the containment check looked at); a name with
    a slash cannot reach Create (the name was split on '/'). -/
def downloadAdd (agentsDir : List Bytes) (fs : Fs) (a : LootAgent) (fileId : Nat) (filePath : Bytes) :
    Fs × LootAgent × Bool :=
  if insideDir (dlTarget agentsDir a filePath) (dlDirStr agentsDir a) = false then (fs, a, false)
  -- a NUL byte left in the (cleaned) directory part: the OS refuses the path (Stat fails with EINVAL, which is not
  -- "does not exist", so nothing is made; Create fails the same way)
  else if (cleanComps (dlTarget agentsDir a filePath)).2.any (·.contains 0) then (fs, a, false)
  else
    -- the path that was checked is the path that is made (fix in DownloadAdd): no directory outside the download
    -- directory is created on the way
    match fs.mkdirAll (cleanComps (dlTarget agentsDir a filePath)).2 with
    | (fs1, false) => (fs1, a, false)
    | (fs1, true) =>
      let local_ := (cleanComps (dlTarget agentsDir a filePath)).2 ++ [stripNull (dlFile filePath)]
      match fs1.create local_ with
      | (fs2, false) => (fs2, a, false)
      | (fs2, true) => (fs2, { a with downloads := a.downloads ++ [⟨fileId, local_, 0⟩] }, true)

/-- the first entry with this file id moves its offset forward -/
def advanceFirst (fileId n : Nat) : List Download → List Download
  | [] => []
  | x :: xs => if x.fileId == fileId then { x with offset := x.offset + n } :: xs else x :: advanceFirst fileId n xs

def downloadWrite (fs : Fs) (a : LootAgent) (fileId : Nat) (data : Bytes) : Fs × LootAgent × Bool :=
  match a.downloads.find? (·.fileId == fileId) with
  | none => (fs, a, false)
  | some d =>
    let fs' := fs.writeAt d.path d.offset data
    -- only the handle that was found advances (two entries can be equal in every field: the same id opened twice)
    let ds := advanceFirst fileId data.length a.downloads
    (fs', { a with downloads := ds }, true)

def downloadClose (a : LootAgent) (fileId : Nat) : LootAgent :=
  match a.downloads.find? (·.fileId == fileId) with
  | none => a
  | some d => { a with downloads := a.downloads.erase d }

/-- `validAgentID` of pkg/logr/demon.go -/
def validAgentId (id : Bytes) : Bool :=
  id ≠ [] ∧ id ≠ [dot] ∧ id ≠ [dot, dot] ∧ ¬ id.contains slash ∧ ¬ id.contains backslash ∧ ¬ id.contains 0

end Havoc
