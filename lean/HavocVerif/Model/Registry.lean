import HavocVerif.Model.Service
/-
  Model of the listener registry as seen through its three views
  (teamserver/cmd/server/listener.go ListenerStart / ListenerRemove / ListenerServiceExc2Add,
  pkg/db/listeners.go, the retained Listener/Add events of cmd/server/teamserver.go) and of
  the endpoint table.  Names and endpoints are strings; a service connection is a number.
-/
namespace Havoc

inductive LKind where
  | http | smb | ext
  | svcExt (owner : Nat)        -- External-C2 listener registered by a service connection
  deriving DecidableEq, Repr

def LKind.builtin : LKind → Bool
  | .svcExt _ => false
  | _ => true

structure Reg where
  mem : List (String × LKind) := []          -- Teamserver.Listeners
  db : List String := []                     -- TS_Listeners rows
  adv : List String := []                    -- names of the retained Listener/Add events, in order
  endpoints : List (String × String) := []   -- (endpoint, listener name)

inductive RegOp where
  | add (kind : LKind) (name : String) (endpoint : String)   -- an operator's add request (kind builtin)
  | remove (name : String)                                    -- an operator's remove request
  | svcExc2 (owner : Nat) (name : String) (endpoint : String) -- ListenerServiceExc2Add
  | svcGone (owner : Nat)                                     -- the service connection went away

def Reg.has (r : Reg) (n : String) : Bool := r.mem.any (·.1 == n)

def Reg.addEndpoint (r : Reg) (e n : String) : Reg :=
  if r.endpoints.any (·.1 == e) then r else { r with endpoints := r.endpoints ++ [(e, n)] }

/-- the first endpoint entry with this endpoint string goes (EndpointRemove) -/
def removeFirst (e : String) : List (String × String) → List (String × String)
  | [] => []
  | x :: xs => if x.1 == e then xs else x :: removeFirst e xs

def removeFirstName (n : String) : List (String × LKind) → List (String × LKind)
  | [] => []
  | x :: xs => if x.1 == n then xs else x :: removeFirstName n xs

def Reg.endpointUsed (r : Reg) (e : String) : Bool := r.endpoints.any (·.1 == e)

def regStep (r : Reg) : RegOp → Reg
  | .add kind name ep =>
    -- a rejected request (name taken, or endpoint of an External listener taken) leaves no trace
    if r.has name then r
    else if kind = .ext ∧ r.endpointUsed ep then r
    else
      let r2 := { r with mem := r.mem ++ [(name, kind)],
                         db := if r.db.contains name then r.db else r.db ++ [name],
                         adv := r.adv ++ [name] }
      if kind = .ext then r2.addEndpoint ep name else r2
  | .remove name =>
    match r.mem.find? (·.1 == name) with
    | none => r
    | some (_, kind) =>
      let eps := match kind with
        | .ext | .svcExt _ => match r.endpoints.find? (·.2 == name) with
          | some (e, _) => removeFirst e r.endpoints
          | none => r.endpoints
        | _ => r.endpoints
      { r with mem := removeFirstName name r.mem, db := r.db.filter (· ≠ name),
               adv := r.adv.filter (· ≠ name), endpoints := eps }
  | .svcExc2 owner name ep =>
    if r.has name then r
    else if r.endpointUsed ep then r
    else ({ r with mem := r.mem ++ [(name, LKind.svcExt owner)] }).addEndpoint ep name
  | .svcGone owner =>
    let gone := (r.mem.filter fun x => x.2 = LKind.svcExt owner).map (·.1)
    { r with mem := r.mem.filter (fun x => x.2 ≠ LKind.svcExt owner),
             endpoints := r.endpoints.filter (fun x => !gone.contains x.2) }

def regRun (ops : List RegOp) : Reg := ops.foldl regStep {}

def Reg.builtinNames (r : Reg) : List String := (r.mem.filter (·.2.builtin)).map (·.1)
def Reg.names (r : Reg) : List String := r.mem.map (·.1)

end Havoc
