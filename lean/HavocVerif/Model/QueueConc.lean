import HavocVerif.Lemmas.Queue
/-
  Concurrency model for the job queue (C04, "including when they run concurrently").

  Two granularities.
  * Atomic: every queue operation is one step (what `Agent.JobMtx` gives: Gen.LockFacts
    shows that every access to `JobQueue` / `Tasks` happens with it held).  An execution is
    then a list of `QOp`s that contains every thread's operations in that thread's order –
    nothing else is assumed about the schedule.
  * Fine: the slice header is loaded and stored in separate steps (what the Go code does
    without the mutex).  Used only to show that the lock is necessary.
-/
namespace Havoc

/-- what producers have queued, in the order their `AddJobToQueue` calls took effect -/
def enqueuedOf {α : Type} : List (QOp α) → List α
  | [] => []
  | .enqueue j :: ops => j :: enqueuedOf ops
  | _ :: ops => enqueuedOf ops

theorem enqueuedOf_append {α : Type} (a b : List (QOp α)) :
    enqueuedOf (a ++ b) = enqueuedOf a ++ enqueuedOf b := by
  induction a with
  | nil => rfl
  | cons op a ih => cases op <;> simp [enqueuedOf, ih]

theorem qrun_enqueued_gen {α : Type} (size : α → Nat) (ops : List (QOp α)) (s : QState α) :
    (ops.foldl (qstep size) s).enqueued = s.enqueued ++ enqueuedOf ops := by
  induction ops generalizing s with
  | nil => simp [enqueuedOf]
  | cons op ops ih =>
    simp only [List.foldl_cons]
    rw [ih]
    cases op with
    | enqueue j => simp [qstep, enqueuedOf]
    | clear => simp [qstep, enqueuedOf]
    | checkin asked =>
      simp only [qstep, enqueuedOf]
      split <;> rfl

theorem qrun_enqueued {α : Type} (size : α → Nat) (ops : List (QOp α)) :
    (qrun size ops).enqueued = enqueuedOf ops := by
  simpa [qrun] using qrun_enqueued_gen size ops {}

/-! ### schedules: threads with their own programs, one step at a time -/

/-- run a schedule: `sched` names, step by step, the thread whose next operation executes
    (a thread that has finished is skipped) -/
def interleave {β : Type} : List (List β) → List Nat → List β
  | _, [] => []
  | ts, i :: sched =>
    match ts[i]? with
    | some (op :: rest) => op :: interleave (ts.set i rest) sched
    | _ => interleave ts sched

/-- the operations of thread `i` that a schedule has executed -/
def executed {β : Type} (ts : List (List β)) (sched : List Nat) (i : Nat) : List β :=
  (ts[i]?.getD []).take (sched.count i)

/-! ### fine-grained (unlocked) steps -/

inductive FStep (α : Type) where
  | load (t : Nat)                     -- thread t reads the slice header into its register
  | storeAppend (t : Nat) (x : α)      -- thread t stores  register ++ [x]          (AddJobToQueue)
  | storeTake (t : Nat) (n : Nat)      -- thread t hands out register[:n], stores register[n:]   (GetQueuedJobs)

structure FState (α : Type) where
  cell : List α := []
  regs : List (Nat × List α) := []
  delivered : List α := []
  enqueued : List α := []

def FState.reg {α : Type} (s : FState α) (t : Nat) : List α :=
  match s.regs.find? (·.1 == t) with
  | some (_, r) => r
  | none => []

def fstep {α : Type} (s : FState α) : FStep α → FState α
  | .load t => { s with regs := (t, s.cell) :: s.regs.filter (·.1 != t) }
  | .storeAppend t x => { s with cell := s.reg t ++ [x], enqueued := s.enqueued ++ [x] }
  | .storeTake t n => { s with cell := (s.reg t).drop n, delivered := s.delivered ++ (s.reg t).take n }

def frun {α : Type} (steps : List (FStep α)) : FState α := steps.foldl fstep {}

theorem reg_after_load {α : Type} (s : FState α) (t : Nat) : (fstep s (.load t)).reg t = s.cell := by
  simp [fstep, FState.reg]

/-- under the lock a thread's load is followed by its own store with nothing in between:
    the pair is exactly the atomic enqueue -/
theorem locked_append_atomic {α : Type} (s : FState α) (t : Nat) (x : α) :
    (fstep (fstep s (.load t)) (.storeAppend t x)).cell = s.cell ++ [x] := by
  have h := reg_after_load s t
  simp only [fstep] at h ⊢
  simp [h]

/-- … and the atomic take -/
theorem locked_take_atomic {α : Type} (s : FState α) (t n : Nat) :
    (fstep (fstep s (.load t)) (.storeTake t n)).cell = s.cell.drop n ∧
    (fstep (fstep s (.load t)) (.storeTake t n)).delivered = s.delivered ++ s.cell.take n := by
  have h := reg_after_load s t
  simp only [fstep] at h ⊢
  simp [h]

end Havoc
