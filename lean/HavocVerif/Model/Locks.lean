import HavocVerif.Gen.LockFacts
import HavocVerif.Gen.LockPaths
import HavocVerif.Gen.TableWrites
/-
  Lock pairing over the regenerated per-function event sequences
  (Gen.LockFacts, source order).  `balanced evs` = no `return`, and no falling off
  the end, with a mutex held that a `defer …Unlock()` does not release.
-/
namespace Havoc
open Gen.LockFacts

structure LockScan where
  held : List String := []
  deferred : List String := []
  ok : Bool := true

def lockStep (s : LockScan) : Ev → LockScan
  | .lock m => { s with held := m :: s.held }
  | .trylock m => { s with held := m :: s.held }
  | .unlock m => { s with held := s.held.erase m }
  | .deferUnlock m => { s with deferred := m :: s.deferred }
  | .ret => { s with ok := s.ok && s.held.all (s.deferred.contains ·) }
  | .access _ => s

def balanced (evs : List Ev) : Bool :=
  let s := evs.foldl lockStep {}
  s.ok && s.held.all (s.deferred.contains ·)

/-- mutexes still held (and not released by a defer) when execution stops after `n` events
    at a return or at the end of the function -/
def heldAtExit (evs : List Ev) : List String :=
  let s := evs.foldl lockStep {}
  s.held.filter (fun m => !s.deferred.contains m)

/-- is the mutex expression `m` the one that guards table `field`?  (`a.SocksCliMtx` guards `SocksCli`, …) -/
def guards (m field : String) : Bool :=
  -- one mutex, `JobMtx`, guards both the job queue and the request-id record of an agent
  let stem := if field = "JobQueue" ∨ field = "Tasks" then "Job" else field
  let suf := stem.toList ++ "Mtx".toList
  (m.toList.reverse.take suf.length).reverse == suf

/-- `pivots.Parent.JobQueue` ↦ (`pivots.Parent`, `JobQueue`): the object an expression selects from, and the field -/
def splitLast (e : String) : String × String :=
  let cs := e.toList.reverse
  let fld := (cs.takeWhile (· != '.')).reverse
  let rcv := ((cs.dropWhile (· != '.')).drop 1).reverse
  (String.ofList rcv, String.ofList fld)

/-- the held mutex `m` guards the table expression `e`: it is that table's mutex AND it belongs to the same object
    (`a.JobMtx` does not guard `pivots.Parent.JobQueue`) -/
def guardsExpr (m e : String) : Bool :=
  guards m (splitLast e).2 && (splitLast m).1 == (splitLast e).1

structure AccessScan where
  held : List String := []
  bad : List String := []

def accessStep (s : AccessScan) : Ev → AccessScan
  | .lock m | .trylock m => { s with held := m :: s.held }
  | .unlock m => { s with held := s.held.erase m }
  | .access e => if s.held.any (guardsExpr · e) then s else { s with bad := (splitLast e).2 :: s.bad }
  | _ => s

/-- table accesses of a function that happen while the table's mutex is not held -/
def unguarded (tables : List String) (evs : List Ev) : List String :=
  ((evs.foldl accessStep {}).bad).filter (tables.contains ·)

def unguardedIn (pkgs tables : List String) : List (String × List String) :=
  (funcs.filterMap fun (pkg, n, evs) =>
    if pkgs.contains pkg ∧ (unguarded tables evs) ≠ [] then some (pkg ++ "/" ++ n, unguarded tables evs) else none)

def unbalancedIn (pkgs : List String) : List String :=
  (funcs.filter fun (pkg, _, evs) => pkgs.contains pkg && !balanced evs).map fun (pkg, n, _) => pkg ++ "/" ++ n

/-- path-sensitive: functions with a control-flow path (Gen.LockPaths: branches, cases, loop bodies taken zero times or
    once, early returns followed separately) that returns with a mutex held that no defer releases -/
def pathsUnbalancedIn (pkgs : List String) : List String :=
  (Gen.LockPaths.funcs.filter fun (pkg, _, ps) => pkgs.contains pkg && !(ps.all balanced)).map
    fun (pkg, n, _) => pkg ++ "/" ++ n

/-- shapes of an assignment to a shared slice table under which the table behaves like the immutable list value the
    models take it for: nothing that was handed out earlier (a batch, a copy under the lock, a replay in progress) can
    be overwritten through the table afterwards.  `delete-at` (`append(T[:i], T[i+1:]...)`) shifts inside the table's own
    live region, which is why readers must copy under the table's mutex (the guarded-access facts). -/
def valueLikeShape (s : String) : Bool :=
  s == "nil" || s == "empty" || s == "push" || s == "delete-at" || s == "split" || s == "fresh-local"

/-- writes to the given tables that are not value-like: (package/function, table, shape) -/
def aliasingWrites (tables : List String) : List (String × String × String) :=
  (Gen.TableWrites.writes.filter fun (_, _, t, sh) => tables.contains t && !valueLikeShape sh).map
    fun (pkg, f, t, sh) => (pkg ++ "/" ++ f, t, sh)

/-- tables among `tables` that are written at least once (non-vacuity of the check above) -/
def writtenTables (tables : List String) : List String :=
  tables.filter fun t => Gen.TableWrites.writes.any fun (_, _, t', _) => t' == t

end Havoc
