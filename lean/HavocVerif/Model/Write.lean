/-
  Model of programmatic edits with hclwrite (hclwrite/ast_body.go: SetAttributeValue,
  RemoveAttribute, AppendNewBlock, RemoveBlock over the token partition of hclwrite/parser.go).
  A body is the list of its items in source order; comments are items too, with their role:
  `lead` = directly in front of the item that follows (no blank line between), `trail` = on the
  line where the previous item ends, `free` = on its own.
-/
namespace Havoc.Wr

inductive Item where
  | attr (name val : String)
  | free (text : String)
  | lead (text : String)
  | trail (text : String)
  | block (type : String) (labels : List String) (body : List Item)
  deriving Repr

def Item.isAttr (n : String) : Item → Bool
  | .attr m _ => m == n
  | _ => false

def Item.isLead : Item → Bool
  | .lead _ => true
  | _ => false

def Item.isBlock : Item → Bool
  | .block _ _ _ => true
  | _ => false

/-- the value an attribute name has in a body -/
def lookup (n : String) : List Item → Option String
  | [] => none
  | .attr m v :: rest => if m == n then some v else lookup n rest
  | _ :: rest => lookup n rest

def hasAttr (n : String) (b : List Item) : Bool := (lookup n b).isSome

/-- SetAttributeValue: in place if the attribute exists, else a new attribute at the end -/
def setIn (n v : String) : List Item → List Item
  | [] => []
  | .attr m w :: rest => if m == n then .attr m v :: rest else .attr m w :: setIn n v rest
  | x :: rest => x :: setIn n v rest

def setAttr (n v : String) (b : List Item) : List Item :=
  if hasAttr n b then setIn n v b else b ++ [.attr n v]

/-- drop the trailing comment of the item just removed -/
def dropTrail : List Item → List Item
  | .trail _ :: rest => rest
  | l => l

/-- RemoveAttribute: the attribute goes with its lead comments and its line comment; `pending`
    are the lead comments seen since the last item -/
def rmAttrGo (n : String) (pending : List Item) : List Item → List Item
  | [] => pending
  | .lead t :: rest => rmAttrGo n (pending ++ [.lead t]) rest
  | .attr m v :: rest =>
    if m == n then dropTrail rest else pending ++ (.attr m v :: rmAttrGo n [] rest)
  | x :: rest => pending ++ (x :: rmAttrGo n [] rest)

def rmAttr (n : String) (b : List Item) : List Item := rmAttrGo n [] b

/-- RemoveBlock of the i-th block of the body, with its lead comments -/
def rmBlockGo (i : Nat) (pending : List Item) : List Item → List Item
  | [] => pending
  | .lead t :: rest => rmBlockGo i (pending ++ [.lead t]) rest
  | .block ty ls body :: rest =>
    match i with
    | 0 => dropTrail rest
    | k + 1 => pending ++ (.block ty ls body :: rmBlockGo k [] rest)
  | x :: rest => pending ++ (x :: rmBlockGo i [] rest)

def rmBlock (i : Nat) (b : List Item) : List Item := rmBlockGo i [] b

def addBlock (ty : String) (ls : List String) (b : List Item) : List Item := b ++ [.block ty ls []]

def nBlocks : List Item → Nat
  | [] => 0
  | .block _ _ _ :: rest => nBlocks rest + 1
  | _ :: rest => nBlocks rest

/-- apply `f` to the body reached by a path of block indices; `none` when the path does not exist -/
def atPath (f : List Item → List Item) : List Nat → List Item → Option (List Item)
  | [], b => some (f b)
  | i :: rest, b =>
    let rec go (k : Nat) : List Item → Option (List Item)
      | [] => none
      | .block ty ls body :: more =>
        match k with
        | 0 => (atPath f rest body).map fun body' => .block ty ls body' :: more
        | k' + 1 => (go k' more).map fun more' => .block ty ls body :: more'
      | x :: more => (go k more).map fun more' => x :: more'
    go i b

inductive Op where
  | set (path : List Nat) (name val : String)
  | rm (path : List Nat) (name : String)
  | addBlock (path : List Nat) (ty : String) (labels : List String)
  | rmBlock (path : List Nat) (i : Nat)

/-- an edit whose body does not exist changes nothing -/
def apply (b : List Item) : Op → List Item
  | .set p n v => (atPath (setAttr n v) p b).getD b
  | .rm p n => (atPath (rmAttr n) p b).getD b
  | .addBlock p ty ls => (atPath (addBlock ty ls) p b).getD b
  | .rmBlock p i => (atPath (rmBlock i) p b).getD b

end Havoc.Wr
