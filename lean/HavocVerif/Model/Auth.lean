import HavocVerif.Model.Http
/-
  Model of the operator endpoint's handshake and of event fan-out:
  `handleRequest`, `ClientAuthenticate`, `EventBroadcast`, `SendAllPackagesToNewClient`,
  `RemoveClient` (teamserver/cmd/server/teamserver.go).  A message is abstracted to the
  fields the handshake looks at; a frame to a tag.
-/
namespace Havoc

structure LoginMsg where
  event : Nat
  sub : Nat
  user : Str
  password : Option Str      -- `some` iff Body.Info["Password"] is a JSON string
  deriving DecidableEq, Repr

structure AuthCfg where
  users : List (Str × Str)   -- operator name ↦ hex SHA3-256 of the password
  initEvent : Nat
  oauthSub : Nat

/-- `ClientAuthenticate` (after the user lookup of handleRequest) -/
def authOk (cfg : AuthCfg) (m : LoginMsg) : Bool :=
  m.event == cfg.initEvent && m.sub == cfg.oauthSub &&
    match cfg.users.lookup m.user with
    | some h => m.password == some h
    | none => false

inductive Frame where
  | authSuccess | authError | userUnknown
  | event (id : Nat)          -- a retained / broadcast event
  | session (id : Nat)        -- NewSession for a live agent
  deriving DecidableEq, Repr

def Frame.isError : Frame → Bool
  | .authError | .userUnknown => true
  | _ => false

inductive CState where
  | fresh          -- connected, nothing received from it yet
  | authed (user : Str)
  | dead           -- answered with an error (and removed / closed), or closed
  deriving DecidableEq, Repr

structure OpSrv where
  conns : List (Nat × CState) := []
  retained : List Nat := []          -- EventsList (ids)
  sessions : List Nat := []          -- live agents
  delivered : List (Nat × Frame) := []   -- (connection, frame) in delivery order

inductive SrvOp where
  | connect (c : Nat)
  | message (c : Nat) (m : LoginMsg)     -- a message from connection c
  | record (e : Nat) (oneTime : Bool) (except : Option Nat)   -- EventAppend + EventBroadcast
  | newSession (a : Nat)
  | close (c : Nat)

def OpSrv.stateOf (s : OpSrv) (c : Nat) : Option CState := s.conns.lookup c
def OpSrv.setState (s : OpSrv) (c : Nat) (st : CState) : OpSrv :=
  { s with conns := (c, st) :: s.conns.filter (·.1 ≠ c) }

def isAuthed : CState → Bool
  | .authed _ => true
  | _ => false

/-- fan-out: every authenticated connection except the excluded one -/
def OpSrv.broadcast (s : OpSrv) (f : Frame) (except : Option Nat) : OpSrv :=
  { s with delivered := s.delivered ++
      (s.conns.filter fun (c, st) => isAuthed st && some c != except).reverse.map fun (c, _) => (c, f) }

/-- the answer to a connection's first message -/
def loginAnswer (cfg : AuthCfg) (m : LoginMsg) : Frame :=
  if (cfg.users.lookup m.user).isNone then Frame.userUnknown
  else if authOk cfg m then Frame.authSuccess else Frame.authError

def OpSrv.deliver (s : OpSrv) (fs : List (Nat × Frame)) : OpSrv := { s with delivered := s.delivered ++ fs }

def srvStep (cfg : AuthCfg) (s : OpSrv) : SrvOp → OpSrv
  | .connect c => if (s.stateOf c).isSome then s else s.setState c .fresh
  | .message c m =>
    if s.stateOf c = some .fresh then
      if loginAnswer cfg m = Frame.authSuccess then
        -- success frame, then the replay: retained events in order, then the live sessions
        ((s.setState c (.authed m.user)).deliver
          ([(c, Frame.authSuccess)] ++ s.retained.map (fun e => (c, Frame.event e)) ++
            s.sessions.map (fun a => (c, Frame.session a))))
      else (s.setState c .dead).deliver [(c, loginAnswer cfg m)]
    else s          -- authenticated traffic is dispatched elsewhere; dead connections are ignored
  | .record e oneTime except =>
    let s1 := if oneTime then s else { s with retained := s.retained ++ [e] }
    s1.broadcast (.event e) except
  | .newSession a =>
    let s1 := { s with sessions := s.sessions ++ [a] }
    s1.broadcast (.session a) none
  | .close c => if (s.stateOf c).isSome then s.setState c .dead else s

end Havoc
