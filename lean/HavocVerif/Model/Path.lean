import HavocVerif.Basic.Bytes
/-
  Byte-string path functions of the Go standard library as used by the loot code:
  `strings.Split`, `strings.Join`, `strings.HasPrefix`, and `path/filepath.Clean` (Unix).
-/
namespace Havoc

/-- ASCII text as bytes (kernel-reducible, unlike `String.toUTF8`) -/
def asciiBytes (s : String) : Bytes := s.toList.map fun c => UInt8.ofNat c.toNat

def slash : UInt8 := 47
def backslash : UInt8 := 92
def dot : UInt8 := 46

/-- `strings.Split(s, sep)` for a one-byte separator -/
def splitByte (sep : UInt8) : Bytes → List Bytes
  | [] => [[]]
  | b :: bs =>
    match splitByte sep bs with
    | [] => [[]]            -- unreachable: splitByte never returns []
    | cur :: rest => if b = sep then [] :: cur :: rest else (b :: cur) :: rest

/-- `strings.Join(parts, sep)` -/
def joinByte (sep : UInt8) : List Bytes → Bytes
  | [] => []
  | [x] => x
  | x :: y :: rest => x ++ [sep] ++ joinByte sep (y :: rest)

def hasPrefixB (s pre : Bytes) : Bool := s.take pre.length == pre

/-- resolve `.` / empty components and `..` against a stack (Clean's elimination rules);
    `rooted`: `..` at the root is dropped, otherwise leading `..` are kept. -/
def resolveComps (rooted : Bool) : List Bytes → List Bytes → List Bytes
  | [], acc => acc.reverse
  | c :: cs, acc =>
    if c = [] ∨ c = [dot] then resolveComps rooted cs acc
    else if c = [dot, dot] then
      match acc with
      | top :: rest => if top = [dot, dot] then resolveComps rooted cs (c :: acc) else resolveComps rooted cs rest
      | [] => if rooted then resolveComps rooted cs [] else resolveComps rooted cs [c]
    else resolveComps rooted cs (c :: acc)

/-- components of the cleaned path (rooted flag kept aside) -/
def cleanComps (p : Bytes) : Bool × List Bytes :=
  let rooted := p.head? == some slash
  (rooted, resolveComps rooted (splitByte slash p) [])

/-- `filepath.Clean` -/
def cleanPath (p : Bytes) : Bytes :=
  let (rooted, cs) := cleanComps p
  let body := joinByte slash cs
  if rooted then slash :: body
  else if cs = [] then [dot] else body

/-- the containment test of the fixed loot code: the cleaned path is the cleaned directory
    itself or starts with it followed by a separator -/
def insideDir (path dir : Bytes) : Bool :=
  let p := cleanPath path
  let d := cleanPath dir
  p == d || hasPrefixB p (d ++ [slash])

end Havoc
