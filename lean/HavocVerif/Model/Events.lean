/-
  Model of event distribution to operators (teamserver/cmd/server/teamserver.go:
  handleRequest after a successful login, EventAppend, EventBroadcast, SendEvent,
  SendAllPackagesToNewClient, RemoveClient; listener.go: ListenerStart / ListenerRemove
  as far as the retained log is concerned; agent.go: Died).

  An event is a tag; a connection is a number.  `failed` are connections whose transport
  is gone but whose reader has not noticed yet: a write to them returns an error (and,
  with the write deadline, returns at all) and delivers nothing.
-/
namespace Havoc

inductive Ev where
  | success
  | chat (marker : String)
  | userOn (u : String) | userOff (u : String)
  | lAdd (n : String) | lRemove (n : String)
  | session (id : String)
  | mark (id : String)
  deriving DecidableEq, Repr

inductive HConn where
  | fresh | authed (u : String) | gone
  deriving DecidableEq, Repr

structure Hub where
  conns : List (Nat × HConn) := []
  failed : List Nat := []
  retained : List Ev := []
  sessions : List (String × Bool) := []     -- (agent id, active) in registration order
  listeners : List String := []
  delivered : List (Nat × Ev) := []          -- in delivery order

inductive HubOp where
  | connect (c : Nat)
  | login (c : Nat) (u : String)             -- a first message that passes ClientAuthenticate (C06 covers the others)
  | record (m : String) (oneTime : Bool) (except : Option Nat)   -- EventAppend + EventBroadcast of a server-side event
  | chat (c : Nat) (m : String)              -- an authenticated operator's chat message
  | lAdd (c : Nat) (n : String)
  | lRemove (c : Nat) (n : String)
  | lNotify (n : String)                     -- a (service) listener reports its status: the teamserver records and broadcasts another add event
  | register (id : String)
  | dead (c : Nat) (id : String)
  | fail (c : Nat)                           -- the transport of c is cut
  | leave (c : Nat)                          -- c's reader sees the error / close: RemoveClient
  deriving DecidableEq

def Hub.stateOf (s : Hub) (c : Nat) : Option HConn := s.conns.lookup c

def Hub.setState (s : Hub) (c : Nat) (st : HConn) : Hub :=
  { s with conns := s.conns.map fun (k, v) => if k = c then (k, st) else (k, v) }

def HConn.isAuthed : HConn → Bool
  | .authed _ => true
  | _ => false

/-- authenticated connections in table order -/
def Hub.authedIds (s : Hub) : List Nat := (s.conns.filter fun (_, st) => st.isAuthed).map (·.1)

/-- SendEvent to each target: one frame each, nothing to connections whose transport failed -/
def Hub.emit (s : Hub) (targets : List Nat) (e : Ev) : Hub :=
  { s with delivered := s.delivered ++ (targets.filter (fun c => !s.failed.contains c)).map fun c => (c, e) }

/-- EventBroadcast -/
def Hub.broadcast (s : Hub) (e : Ev) (except : Option Nat) : Hub :=
  s.emit (s.authedIds.filter fun c => some c != except) e

/-- EventAppend of an event that is not one-shot -/
def Hub.retain (s : Hub) (e : Ev) : Hub := { s with retained := s.retained ++ [e] }

def Hub.emitMany (s : Hub) (c : Nat) (es : List Ev) : Hub :=
  if s.failed.contains c then s else { s with delivered := s.delivered ++ es.map fun e => (c, e) }

def Hub.activeSessions (s : Hub) : List Ev := (s.sessions.filter (·.2)).map fun (id, _) => Ev.session id

def hubStep (s : Hub) : HubOp → Hub
  | .connect c => if (s.stateOf c).isSome then s else { s with conns := s.conns ++ [(c, .fresh)] }
  | .login c u =>
    if s.stateOf c = some .fresh then
      let s1 := s.setState c (.authed u)
      let s2 := (s1.emitMany c [.success]).retain (.userOn u)
      let s3 := s2.broadcast (.userOn u) (some c)
      s3.emitMany c (s3.retained ++ s3.activeSessions)
    else s
  | .record m one ex =>
    let s1 := if one then s else s.retain (.chat m)
    s1.broadcast (.chat m) ex
  | .chat c m =>
    match s.stateOf c with
    | some (.authed _) => (s.retain (.chat m)).broadcast (.chat m) none
    | _ => s
  | .lAdd c n =>
    match s.stateOf c with
    | some (.authed _) =>
      -- the request itself is not retained; "listener already exists" is an error to the requester only
      if s.listeners.contains n then s
      else ({ s with listeners := s.listeners ++ [n] }.retain (.lAdd n)).broadcast (.lAdd n) none
    | _ => s
  | .lRemove c n =>
    match s.stateOf c with
    | some (.authed _) =>
      let s1 := s.retain (.lRemove n)
      let s2 := if s1.listeners.contains n then
          { s1 with listeners := s1.listeners.filter (· ≠ n), retained := s1.retained.filter (· ≠ .lAdd n) }
        else s1
      (s2.retain (.lRemove n)).broadcast (.lRemove n) none
    | _ => s
  | .lNotify n => (s.retain (.lAdd n)).broadcast (.lAdd n) none
  | .register id =>
    if s.sessions.any (·.1 == id) then s
    else { s with sessions := s.sessions ++ [(id, true)] }.broadcast (.session id) none
  | .dead c id =>
    match s.stateOf c with
    | some (.authed _) =>
      let s1 := s.retain (.mark id)
      if s1.sessions.any (·.1 == id) then
        ({ s1 with sessions := s1.sessions.map fun (i, a) => if i == id then (i, false) else (i, a) }.retain (.mark id)).broadcast (.mark id) none
      else s1
    | _ => s
  | .fail c => { s with failed := c :: s.failed }
  | .leave c =>
    match s.stateOf c with
    | some (.authed u) => ((s.retain (.userOff u)).setState c .gone).broadcast (.userOff u) (some c)
    | some .fresh => s.setState c .gone
    | _ => s

def hubRun (ops : List HubOp) : Hub := ops.foldl hubStep {}

/-- what connection c has received, in order -/
def Hub.received (s : Hub) (c : Nat) : List Ev := (s.delivered.filter (·.1 = c)).map (·.2)

end Havoc
