/-
  Bytes, fixed-width integer encodings (big- and little-endian) and their
  round-trip lemmas.  Core Lean only (no Mathlib) so the driver links.
-/
namespace Havoc

abbrev Bytes := List UInt8

/-- big-endian value of a byte string (Go: `binary.BigEndian.UintNN`). -/
def beNat (bs : Bytes) : Nat := bs.foldl (fun acc b => acc * 256 + b.toNat) 0

/-- little-endian value of a byte string (Go: `binary.LittleEndian.UintNN`). -/
def leNat : Bytes → Nat
  | [] => 0
  | b :: bs => b.toNat + 256 * leNat bs

def be16 (v : Nat) : Bytes := [UInt8.ofNat (v / 256 % 256), UInt8.ofNat (v % 256)]
def le16 (v : Nat) : Bytes := [UInt8.ofNat (v % 256), UInt8.ofNat (v / 256 % 256)]

def be32 (v : Nat) : Bytes :=
  [UInt8.ofNat (v / 16777216 % 256), UInt8.ofNat (v / 65536 % 256),
   UInt8.ofNat (v / 256 % 256), UInt8.ofNat (v % 256)]

def le32 (v : Nat) : Bytes :=
  [UInt8.ofNat (v % 256), UInt8.ofNat (v / 256 % 256),
   UInt8.ofNat (v / 65536 % 256), UInt8.ofNat (v / 16777216 % 256)]

def be64 (v : Nat) : Bytes := be32 (v / 4294967296 % 4294967296) ++ be32 (v % 4294967296)
def le64 (v : Nat) : Bytes := le32 (v % 4294967296) ++ le32 (v / 4294967296 % 4294967296)

@[simp] theorem be32_length (v : Nat) : (be32 v).length = 4 := rfl
@[simp] theorem le32_length (v : Nat) : (le32 v).length = 4 := rfl
@[simp] theorem be64_length (v : Nat) : (be64 v).length = 8 := rfl
@[simp] theorem le64_length (v : Nat) : (le64 v).length = 8 := rfl
@[simp] theorem be16_length (v : Nat) : (be16 v).length = 2 := rfl
@[simp] theorem le16_length (v : Nat) : (le16 v).length = 2 := rfl

theorem beNat_be32 (v : Nat) (h : v < 4294967296) : beNat (be32 v) = v := by
  simp [be32, beNat, UInt8.toNat_ofNat']
  omega

theorem leNat_le32 (v : Nat) (h : v < 4294967296) : leNat (le32 v) = v := by
  simp [le32, leNat, UInt8.toNat_ofNat']
  omega

theorem leNat_le16 (v : Nat) (h : v < 65536) : leNat (le16 v) = v := by
  simp [le16, leNat, UInt8.toNat_ofNat']
  omega

theorem beNat_be64 (v : Nat) (h : v < 18446744073709551616) : beNat (be64 v) = v := by
  simp [be64, be32, beNat, UInt8.toNat_ofNat']
  omega

theorem leNat_le64 (v : Nat) (h : v < 18446744073709551616) : leNat (le64 v) = v := by
  simp [le64, le32, leNat, UInt8.toNat_ofNat']
  omega

theorem beNat_lt (bs : Bytes) : beNat bs < 256 ^ bs.length := by
  suffices h : ∀ (acc : Nat) (n : Nat), acc < 256 ^ n →
      bs.foldl (fun acc b => acc * 256 + b.toNat) acc < 256 ^ (n + bs.length) by
    simpa [beNat] using h 0 0 (by simp)
  induction bs with
  | nil => intro acc n h; simpa using h
  | cons b bs ih =>
    intro acc n h
    have hb : b.toNat < 256 := UInt8.toNat_lt b
    have : acc * 256 + b.toNat < 256 ^ (n + 1) := by
      rw [Nat.pow_succ]; omega
    have := ih (acc * 256 + b.toNat) (n + 1) this
    simpa [List.foldl, Nat.add_assoc, Nat.add_comm 1] using this

/-! ### hex (line protocol) -/

def hexDigit (n : Nat) : Char :=
  if n < 10 then Char.ofNat (48 + n) else Char.ofNat (87 + n)

def hexOfByte (b : UInt8) : List Char := [hexDigit (b.toNat / 16), hexDigit (b.toNat % 16)]

def toHex (bs : Bytes) : String := String.ofList (bs.flatMap hexOfByte)

def hexVal (c : Char) : Option Nat :=
  if '0' ≤ c ∧ c ≤ '9' then some (c.toNat - 48)
  else if 'a' ≤ c ∧ c ≤ 'f' then some (c.toNat - 87)
  else if 'A' ≤ c ∧ c ≤ 'F' then some (c.toNat - 55)
  else none

def ofHexChars : List Char → Option Bytes
  | [] => some []
  | [_] => none
  | a :: b :: rest => do
    let x ← hexVal a
    let y ← hexVal b
    let r ← ofHexChars rest
    pure (UInt8.ofNat (x * 16 + y) :: r)

/-- `"-"` is the empty byte string in the line protocol. -/
def ofHex (s : String) : Option Bytes :=
  if s = "-" then some [] else ofHexChars s.toList

def toHexP (bs : Bytes) : String := if bs.isEmpty then "-" else toHex bs

end Havoc
