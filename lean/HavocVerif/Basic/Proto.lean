import HavocVerif.Basic.Bytes
/-
  Line protocol shared by the Go harness and the Lean driver.
  A line is `<op> <args…> => <implementation output>`.
  The driver answers, per line, one of
     ok
     DIFF model=<…>                      (model ≠ implementation, Spec still satisfied / silent)
     SPECFAIL class=<id> <detail>        (the property's Spec is false of what the implementation did)
     BADLINE <reason>                    (harness / driver bug, counted as a broken correspondence)
-/
namespace Havoc

structure Line where
  op : String
  args : List String
  impl : List String     -- tokens right of "=>"
  deriving Repr

def splitWs (s : String) : List String :=
  (s.splitOn " ").filter (· ≠ "")

def parseLine (s : String) : Option Line :=
  let s := s.trimAscii.toString
  match s.splitOn " => " with
  | [l, r] =>
    match splitWs l with
    | op :: args => some ⟨op, args, splitWs r⟩
    | [] => none
  | [l] =>
    match splitWs l with
    | op :: args => some ⟨op, args, []⟩
    | [] => none
  | _ => none

inductive Verdict where
  | ok
  | diff (model : String)
  | specFail (cls : String) (detail : String)
  | bad (reason : String)

def Verdict.render : Verdict → String
  | .ok => "ok"
  | .diff m => "DIFF model=" ++ m
  | .specFail c d => "SPECFAIL class=" ++ c ++ " " ++ d
  | .bad r => "BADLINE " ++ r

def joinSp (xs : List String) : String := " ".intercalate xs

def natCsv (s : String) : Option (List Nat) :=
  if s = "-" then some [] else (s.splitOn ",").mapM (·.toNat?)

end Havoc
