import HavocVerif.Basic.Bytes
/-
  Go failure as data: the ways a Go statement of the modelled code can panic.
  "Never panics" is then a theorem (`∀ x, ∃ v, f x = .ok v`), not an artefact of
  Lean's totality.
-/
namespace Havoc

inductive Fault where
  | sliceBounds      -- s[lo:hi] with hi > len(s) or lo > hi
  | indexOutOfRange  -- s[i] with i ≥ len(s)
  | nilDeref
  | badAssert        -- x.(T) on a value of another dynamic type
  | outOfFuel
  deriving DecidableEq, Repr

abbrev GoM := Except Fault

/-- Go `s[lo:hi]` -/
def goSlice (s : Bytes) (lo hi : Nat) : GoM Bytes :=
  if hi > s.length ∨ lo > hi then .error .sliceBounds else .ok ((s.take hi).drop lo)

/-- Go `s[i]` -/
def goIndex {α : Type} (s : List α) (i : Nat) : GoM α :=
  match s[i]? with
  | some x => .ok x
  | none => .error .indexOutOfRange

end Havoc
