import HavocVerif.Basic.Bytes
