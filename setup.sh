#!/bin/sh
# Build the framework from files on disk only (offline). Run once after a fresh restore.
set -e
HERE="$(cd "$(dirname "$0")" && pwd)"
cd "$HERE"
export GOFLAGS=-mod=mod GOPROXY=off GOSUMDB=off GOTOOLCHAIN=local
mkdir -p work/bin evidence
(cd tools/gofacts && go build -o "$HERE/work/bin/gofacts" .)
work/bin/gofacts -repo "${VERIF_REPO:-/repo}" -out lean/HavocVerif/Gen || true
python3 tools/cfacts.py "${VERIF_REPO:-/repo}" lean/HavocVerif/Gen || true
(cd lean && lake build HavocVerif driver)
cp "${VERIF_REPO:-/repo}/teamserver/go.sum" harness/go.sum
(cd harness && go build -tags verif -o "$HERE/work/bin/hv" ./cmd/hv)
echo setup-ok
