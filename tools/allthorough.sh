#!/bin/sh
# run the thorough tier of every property on the current tree, one after the other; summary in work/allthorough.log
cd "$(dirname "$0")/.."
export GOFLAGS=-mod=mod GOPROXY=off GOSUMDB=off GOTOOLCHAIN=local
: > work/allthorough.log
for p in ${@:-C01 C02 C03 C04 C05 C06 C07 C08 C09 C10 C11 C12 C13 C14 C15 C16 C17 C18 C19 C20}; do
  s=$(date +%s)
  ./check $p --tier thorough > work/t_$p.log 2>&1
  rc=$?
  e=$(date +%s)
  echo "$p exit=$rc secs=$((e-s)) $(grep -c '^VIOLATION' work/t_$p.log) violations; $(grep -E '^VIOLATION' work/t_$p.log | head -3 | tr '\n' ';')" >> work/allthorough.log
done
echo DONE >> work/allthorough.log
