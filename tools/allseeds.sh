#!/bin/sh
# tools/allseeds.sh — apply every seeded change in turn, run the property's quick check, undo it; one line per seed.
cd /verif
for d in seeded/C*-m*; do
  id=$(basename $d); prop=${id%%-*}
  if ! (cd /repo && git apply --check /verif/$d/patch.diff 2>/dev/null); then echo "$id APPLY-FAILED"; continue; fi
  out=$(tools/seedtest.sh $d/patch.diff $prop 2>&1)
  v=$(echo "$out" | grep "^VIOLATION" | sed 's/.*replay=[^ ]*violation_//; s/\.ops//' | tr '\n' ' ')
  b=$(echo "$out" | grep "broken:" | cut -c1-120 | tr '\n' ' ')
  echo "$id violations=[$v] $b"
done
