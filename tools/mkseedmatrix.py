#!/usr/bin/env python3
"""Fills the SEEDMATRIX and FINDINGS sections of DESIGN.md from work/allseeds.log (tools/allseeds.sh),
seeded/*/meta.json and findings/known_findings.json; also writes `detected_by` into each meta.json."""
import json, os, re, glob
V = os.path.dirname(os.path.dirname(os.path.abspath(__file__)))
log = {}
p = os.path.join(V, "work", "allseeds.log")
if os.path.exists(p):
    for l in open(p):
        m = re.match(r"(C\d\d-m\d+) (.*)", l.strip())
        if m:
            log[m.group(1)] = m.group(2)
rows = ["| seed | change (one line) | result of `./check` with it applied |", "|---|---|---|"]
for d in sorted(glob.glob(os.path.join(V, "seeded", "C*-m*"))):
    sid = os.path.basename(d)
    mp = os.path.join(d, "meta.json")
    meta = json.load(open(mp))
    title = meta.get("needs_to_manifest", "").split("##")[0].strip().lstrip("# ").strip()
    title = re.sub(r"^copy into .*?\s\./\S+/?\s*", "", title)          # (round 6 notes begin with the copy-and-run line)
    title = re.sub(r"^#+\s*", "", title)
    title = re.sub(r"^C\d\d\s*/\s*(m|mutation)\s*\d\s*[—-]\s*", "", title)
    title = re.sub(r"^C\d\d mutation \d\s*[—-]\s*", "", title).split(" **")[0].strip()[:150]
    res = log.get(sid, "")
    neut = meta.get("neutralised") or (meta.get("status_after_fixes") if str(meta.get("status_after_fixes", "")).startswith("neutralised") else None)
    if neut:
        det = "no alarm (correct): " + neut[:220]
    elif "APPLY-FAILED" in res:
        det = "patch no longer applies"
    else:
        m = re.search(r"violations=\[(.*?)\]", res)
        classes = (m.group(1).split() if m else [])
        broken = "broken:" in res
        if classes:
            det = "VIOLATION with replay: " + ", ".join(c for c in classes)
            if broken:
                det += " (+ proof/fact obligation fails)"
        elif broken:
            det = "VIOLATION no-failing-input-found (proof / fact obligation fails)"
        elif res:
            det = "NOT detected"
        else:
            det = meta.get("detected_by", "(not run)")
    if meta.get("rebased"):
        det += " [re-based]"
    if res and not neut:
        meta["detected_by"] = det
        json.dump(meta, open(mp, "w"), indent=1)
    rows.append(f"| {sid} | {title} | {det} |")
f = json.load(open(os.path.join(V, "findings", "known_findings.json")))["findings"]
frows = ["| property | status | commit | class | what failed | witness |", "|---|---|---|---|---|---|"]
for e in f:
    frows.append("| %s | %s | %s | %s | %s | %s |" % (e["property"], e["status"], e.get("commit", "-"), e["class"].replace("|", "/"),
                                                   e["what_fails"].replace("|", "/")[:260], e["witness"].replace("|", "/")[:160]))
dp = os.path.join(V, "DESIGN.md")
s = open(dp).read()
def put(s, tag, lines):
    a = s.index("<!-- %s-BEGIN -->" % tag)
    b = s.index("<!-- %s-END -->" % tag)
    return s[:a] + "<!-- %s-BEGIN -->\n" % tag + "\n".join(lines) + "\n" + s[b:]
s = put(s, "SEEDMATRIX", rows)
s = put(s, "FINDINGS", frows)
open(dp, "w").write(s)
print("seeds:", len(rows) - 2, "findings:", len(frows) - 2)
