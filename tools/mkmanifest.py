#!/usr/bin/env python3
"""Regenerates /verif/MANIFEST.json from tools/props.py (claimed properties) and properties.jsonl."""
import json, os, sys
HERE = os.path.dirname(os.path.abspath(__file__))
sys.path.insert(0, HERE)
from props import PROPS, NOT_APPLICABLE, HOOK_COMMITS  # noqa
V = os.path.dirname(HERE)
props = [json.loads(l) for l in open(os.path.join(V, "properties.jsonl"))]
checks = []
for p in props:
    i = p["id"]
    if i not in PROPS:
        continue
    c = PROPS[i]
    checks.append({
        "property_id": i,
        "quick_cmd": f"./check {i} --tier quick",
        "thorough_cmd": f"./check {i} --tier thorough",
        "evidence_file": f"/verif/evidence/{i}.json",
        "replay_cmd_template": f"./check {i} --replay {{path}}",
        "engine": "lean4+hv",
        "level_claimed": {"category": c.get("level", "proof"), "text": c["claim"], "design_ref": f"DESIGN.md §5 {i}"},
        "level_note": c["note"],
        "technique": c["technique"],
    })
m = {
    "version": 1,
    "setup_cmd": "./setup.sh",
    "hooks": {
        "guard": "verif",
        "enable": "go build -tags verif (harness module with `replace Havoc => /repo/teamserver`); hooks are *_verif.go files with //go:build verif",
        "baseline_off_cmd": "cd /repo/teamserver && GOFLAGS=-mod=mod go test -json -vet=off -count=1 -timeout 25m ./...",
        "source_commits": HOOK_COMMITS,
        "add_only": True,
    },
    "engines": [{
        "name": "lean4+hv", "path": "/verif/lean + /verif/harness + /verif/tools",
        "serves_properties": sorted(PROPS),
        "kind_free_text": "Lean 4 models/specs/theorems (lake project HavocVerif, core-only models), facts regenerated from /repo on every run "
                          "(tools/gofacts, tools/cfacts.py), Go correspondence harness `hv` driving the real code in-process under build tag verif, "
                          "compiled Lean line-protocol driver evaluating Model and Spec on the same operations",
    }],
    "checks": checks,
    "notes": "See DESIGN.md. Every check = regenerate facts from /repo, lake build Props.<id> + #print axioms audit + forbidden-token scan, rebuild the "
             "harness from /repo's working tree with -tags verif, run implementation and Lean model/spec on the same corpus + generated operations; "
             "known findings in findings/known_findings.json.",
    "not_applicable": [{"property_id": p["id"], "reason": NOT_APPLICABLE.get(p["id"], "not claimed in this commit: model/theorems/harness still under construction (DESIGN.md §10)")}
                       for p in props if p["id"] not in PROPS],
}
json.dump(m, open(os.path.join(V, "MANIFEST.json"), "w"), indent=1)
print("claimed:", sorted(PROPS))

# validate against the interface schema when the tooling venv is there (never fatal for a check run)
try:
    import subprocess
    r = subprocess.run(["python3-vt", "-c", "import json,jsonschema,sys;jsonschema.validate(json.load(open(sys.argv[1])),json.load(open('/root/.vp/MANIFEST.schema.json')))", os.path.join(V, "MANIFEST.json")], capture_output=True, text=True)
    print("schema:", "ok" if r.returncode == 0 else "INVALID\n" + r.stderr[-800:])
    if r.returncode != 0:
        sys.exit(2)
except FileNotFoundError:
    pass
