#!/bin/sh
# like confirm_seed.sh, but additionally compares the set of failing yaotl tests with and without the patch
D="$(readlink -f "$1")"; PKG="$2"; RUN="$3"
export GOFLAGS=-mod=mod GOPROXY=off GOSUMDB=off GOTOOLCHAIN=local
WT=$(mktemp -d /tmp/confirm.XXXXXX)
git -C /repo worktree add -q --detach "$WT" HEAD || exit 2
cd "$WT" || exit 2
(cd teamserver && go test -vet=off -count=1 ./pkg/profile/yaotl/... 2>&1 | grep -E "^(--- FAIL|FAIL|ok)" | sed 's/[0-9.]*s$//; s/(cached)//' | sort > "$WT/y0.txt")
cp "$D"/demo_test.go "teamserver/$PKG/zz_demo_test.go"
(cd teamserver && go test -vet=off -count=1 -run "$RUN" "./$PKG/" >"$WT/without.txt" 2>&1); W0=$?
rm "teamserver/$PKG/zz_demo_test.go"
git apply "$D/patch.diff" || echo "APPLY-FAILED"
(cd teamserver && go build ./... >"$WT/build.txt" 2>&1); B=$?
(cd teamserver && go test -vet=off -count=1 ./pkg/profile/yaotl/... 2>&1 | grep -E "^(--- FAIL|FAIL|ok)" | sed 's/[0-9.]*s$//; s/(cached)//' | sort > "$WT/y1.txt")
cp "$D"/demo_test.go "teamserver/$PKG/zz_demo_test.go"
(cd teamserver && go test -vet=off -count=1 -run "$RUN" "./$PKG/" >"$WT/with.txt" 2>&1); W1=$?
if cmp -s "$WT/y0.txt" "$WT/y1.txt"; then Y=same; else Y=DIFFERENT; diff "$WT/y0.txt" "$WT/y1.txt" | head -5; fi
echo "CONFIRM $(basename $(dirname $D))/$(basename $D): build=$B demo_without=$W0 (want 0) demo_with=$W1 (want !=0) yaotl_results=$Y"
cd / && git -C /repo worktree remove --force "$WT"
