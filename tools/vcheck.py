#!/usr/bin/env python3
"""
vcheck — the single pipeline behind every ./check <property>.

  regenerate Gen/*.lean from /repo  -> lake build Props.<id> (+ axioms audit, forbidden-token scan)
  -> rebuild the Go harness against /repo's working tree (tag verif)
  -> harness runs the implementation on corpus + generated inputs (ops.txt)
  -> compiled Lean driver runs Model and Spec on the same lines
  -> verdict, VIOLATION / KNOWN-FINDING lines, evidence/<id>.json

See DESIGN.md §1 for the verdict logic.
"""
import fcntl, hashlib, json, os, re, shutil, subprocess, sys, time, glob

VERIF = os.path.dirname(os.path.dirname(os.path.abspath(__file__)))
REPO = os.environ.get("VERIF_REPO", "/repo")
LEAN = os.path.join(VERIF, "lean")
WORK = os.path.join(VERIF, "work")
BIN = os.path.join(WORK, "bin")
GEN = os.path.join(LEAN, "HavocVerif", "Gen")
ALLOWED_AXIOMS = {"propext", "Classical.choice", "Quot.sound"}

GOENV = dict(os.environ, GOFLAGS="-mod=mod", GOPROXY="off", GOSUMDB="off", GOTOOLCHAIN="local")

sys.path.insert(0, os.path.join(VERIF, "tools"))
from props import PROPS  # noqa: E402


def sh(cmd, cwd=None, env=None, timeout=None, stdin=None):
    t0 = time.time()
    p = subprocess.run(cmd, cwd=cwd, env=env, stdout=subprocess.PIPE, stderr=subprocess.STDOUT,
                       timeout=timeout, stdin=stdin, text=True, errors="replace")
    return p.returncode, p.stdout, time.time() - t0


class BuildLock:
    def __enter__(self):
        os.makedirs(WORK, exist_ok=True)
        self.f = open(os.path.join(WORK, ".buildlock"), "w")
        fcntl.flock(self.f, fcntl.LOCK_EX)
        return self

    def __exit__(self, *a):
        fcntl.flock(self.f, fcntl.LOCK_UN)
        self.f.close()


# ----------------------------------------------------------------------------------------------
# build steps
# ----------------------------------------------------------------------------------------------

def build_tools(log):
    os.makedirs(BIN, exist_ok=True)
    rc, out, dt = sh(["go", "build", "-o", os.path.join(BIN, "gofacts"), "."],
                     cwd=os.path.join(VERIF, "tools", "gofacts"), env=GOENV)
    log.append(("build gofacts", rc, dt, out[-2000:]))
    return rc == 0


def regen_facts(log):
    """returns (ok, failed_modules)"""
    if not build_tools(log):
        return False, ["<gofacts build>"]
    rc, out, dt = sh([os.path.join(BIN, "gofacts"), "-repo", REPO, "-out", GEN])
    log.append(("gofacts", rc, dt, out[-4000:]))
    failed = re.findall(r"FACTS-FAIL (\S+)", out)
    rc2, out2, dt2 = sh([sys.executable, os.path.join(VERIF, "tools", "cfacts.py"), REPO, GEN])
    log.append(("cfacts", rc2, dt2, out2[-4000:]))
    failed += re.findall(r"FACTS-FAIL (\S+)", out2)
    # no stale generated module may survive a run
    produced = set(re.findall(r"FACTS-(?:SAME|CHANGED) (\S+)", out + out2)) | set(failed)
    for f in glob.glob(os.path.join(GEN, "*.lean")):
        if os.path.basename(f)[:-5] not in produced:
            os.remove(f)
    return (rc == 0 and rc2 == 0), failed


def lake_build(targets, log):
    rc, out, dt = sh(["lake", "build"] + targets, cwd=LEAN)
    log.append(("lake build " + " ".join(targets), rc, dt, out[-6000:]))
    return rc == 0, out


def build_harness(log):
    hdir = os.path.join(VERIF, "harness")
    try:
        shutil.copyfile(os.path.join(REPO, "teamserver", "go.sum"), os.path.join(hdir, "go.sum"))
    except OSError as e:
        log.append(("copy go.sum", 1, 0, str(e)))
    rc, out, dt = sh(["go", "build", "-tags", "verif", "-o", os.path.join(BIN, "hv"), "./cmd/hv"],
                     cwd=hdir, env=GOENV)
    log.append(("go build harness", rc, dt, out[-6000:]))
    return rc == 0, out


def strip_lean_comments(src):
    out, i, depth, n = [], 0, 0, len(src)
    while i < n:
        if src.startswith("/-", i):
            depth += 1; i += 2; continue
        if depth > 0 and src.startswith("-/", i):
            depth -= 1; i += 2; continue
        if depth > 0:
            if src[i] == "\n":
                out.append("\n")
            i += 1; continue
        if src.startswith("--", i):
            j = src.find("\n", i)
            i = n if j < 0 else j
            continue
        if src[i] == '"':  # string literal
            j = i + 1
            while j < n and src[j] != '"':
                j += 2 if src[j] == "\\" else 1
            out.append('""'); i = j + 1; continue
        out.append(src[i]); i += 1
    return "".join(out)


FORBIDDEN = re.compile(r"\bsorry\b|\badmit\b|^\s*axiom\s|native_decide|bv_decide|implemented_by|\bunsafe\s|maxHeartbeats\s+0\b|\bextern\b", re.M)


def forbidden_scan():
    hits = []
    files = glob.glob(os.path.join(LEAN, "HavocVerif", "**", "*.lean"), recursive=True)
    files += [os.path.join(LEAN, "Driver.lean"), os.path.join(LEAN, "HavocVerif.lean")]
    for f in files:
        try:
            src = strip_lean_comments(open(f).read())
        except OSError:
            continue
        for m in FORBIDDEN.finditer(src):
            line = src.count("\n", 0, m.start()) + 1
            hits.append(f"{os.path.relpath(f, LEAN)}:{line}: {m.group(0).strip()}")
    return hits


def theorems_of(pid):
    """property theorems declared in Props/<pid>.lean, fully qualified"""
    path = os.path.join(LEAN, "HavocVerif", "Props", f"{pid}.lean")
    src = strip_lean_comments(open(path).read())
    ns, names = [], []
    for line in src.split("\n"):
        m = re.match(r"\s*namespace\s+(\S+)", line)
        if m:
            ns.append(m.group(1)); continue
        m = re.match(r"\s*end\s+(\S+)", line)
        if m and ns and ns[-1] == m.group(1):
            ns.pop(); continue
        m = re.match(r"\s*(?:private\s+|protected\s+)?theorem\s+([^\s:({\[]+)", line)
        if m:
            names.append(".".join(ns + [m.group(1)]))
    return names


def audit_axioms(pid, log):
    """returns (per-theorem axioms dict, error text)"""
    thms = theorems_of(pid)
    d = os.path.join(WORK, pid)
    os.makedirs(d, exist_ok=True)
    af = os.path.join(d, "Audit.lean")
    with open(af, "w") as f:
        f.write(f"import HavocVerif.Props.{pid}\n")
        for t in thms:
            f.write(f"#print axioms {t}\n")
    rc, out, dt = sh(["lake", "env", "lean", af], cwd=LEAN)
    log.append(("axioms audit", rc, dt, out[-3000:]))
    res = {}
    # output: "'name' depends on axioms: [a, b]" or "'name' does not depend on any axioms"
    for m in re.finditer(r"'([^']+)' depends on axioms: \[([^\]]*)\]", out.replace("\n ", " ")):
        res[m.group(1)] = [a.strip() for a in m.group(2).replace("\n", " ").split(",") if a.strip()]
    for m in re.finditer(r"'([^']+)' does not depend on any axioms", out):
        res[m.group(1)] = []
    return thms, res, (out if rc != 0 else "")


# ----------------------------------------------------------------------------------------------
# known findings
# ----------------------------------------------------------------------------------------------

def load_findings(pid):
    path = os.path.join(VERIF, "findings", "known_findings.json")
    try:
        data = json.load(open(path))
    except OSError:
        return []
    return [f for f in data.get("findings", []) if f.get("property") == pid]


# ----------------------------------------------------------------------------------------------
# running
# ----------------------------------------------------------------------------------------------

def run_harness(pid, outdir, seed, n, tier, replay=None, timeout=3600, slow=None):
    cmd = [os.path.join(BIN, "hv"), pid, "-seed", str(seed), "-n", str(n), "-tier", tier, "-out", outdir]
    if replay:
        cmd += ["-replay", replay]
    env = dict(os.environ, GOMEMLIMIT="8GiB", VERIF_REPO=REPO)
    if slow:
        env["VERIF_SLOW"] = str(slow)
    rc, out, dt = sh(cmd, cwd=outdir, env=env, timeout=timeout)
    return rc, out, dt


def run_driver(pid, outdir, timeout=3600):
    ops = os.path.join(outdir, "ops.txt")
    with open(ops) as fin:
        p = subprocess.run([os.path.join(LEAN, ".lake", "build", "bin", "driver"), pid], stdin=fin,
                           stdout=subprocess.PIPE, stderr=subprocess.PIPE, text=True, errors="replace",
                           timeout=timeout)
    open(os.path.join(outdir, "verdicts.txt"), "w").write(p.stdout)
    return p.returncode, p.stdout, p.stderr


def op_lines(outdir):
    res = []
    for l in open(os.path.join(outdir, "ops.txt"), errors="replace"):
        t = l.strip()
        if t and not t.startswith("#"):
            res.append(t)
    return res


def case_key(line):
    i = line.find(" => ")
    return line if i < 0 else line[:i]


class Batch:
    """result of running one ops file through implementation and model"""

    def __init__(self):
        self.lines = 0
        self.ok = 0
        self.diffs = []      # (line, verdict)
        self.bad = []
        self.specfails = []  # (class, line, verdict)
        self.keys = set()
        self.samples = []
        self.dist = {}
        self.crashed = None


def evaluate(pid, outdir, batch):
    lines = op_lines(outdir)
    rc, out, err = run_driver(pid, outdir)
    if rc != 0:
        batch.crashed = f"driver exit {rc}: {err[-500:]}"
        return batch
    verdicts = [v for v in out.split("\n") if v.strip()]
    if len(verdicts) != len(lines):
        batch.crashed = f"driver answered {len(verdicts)} verdicts for {len(lines)} lines"
        return batch
    last_reset = None
    for idx, (line, v) in enumerate(zip(lines, verdicts)):
        if line == "reset" or line.startswith("reset "):
            last_reset = idx
        case = lines[last_reset:idx + 1] if last_reset is not None else [line]
        body = v.split(" ", 1)[1] if " " in v else v
        batch.lines += 1
        h = hashlib.blake2b(case_key(line).encode(), digest_size=8).digest()
        batch.keys.add(h)
        if body == "ok" or body.startswith("ok "):
            batch.ok += 1
            if len(batch.samples) < 3 and len(line) < 600:
                batch.samples.append(line)
        elif body.startswith("SPECFAIL"):
            m = re.match(r"SPECFAIL class=(\S+)", body)
            batch.specfails.append((m.group(1) if m else "?", case, body))
        elif body.startswith("DIFF"):
            batch.diffs.append((case, body))
        else:
            batch.bad.append((case, body))
    try:
        st = json.load(open(os.path.join(outdir, "stats.json")))
        for k, v in st.get("dist", {}).items():
            batch.dist[k] = batch.dist.get(k, 0) + v
    except (OSError, ValueError):
        pass
    return batch


def confirm_case(pid, wd, case, log, attempts=3, slow=4):
    """Re-run one failing case alone with stretched observation windows.  True iff it fails again
    (any SPECFAIL / DIFF / process exit) in one of `attempts` runs: only then is a timing-dependent
    observation believed."""
    od = os.path.join(wd, "confirm")
    for i in range(attempts):
        shutil.rmtree(od, ignore_errors=True)
        os.makedirs(od)
        rp = os.path.join(od, "case.ops")
        with open(rp, "w") as f:
            for l in case:
                f.write(case_key(l) + "\n")
        try:
            rc, out, dt = run_harness(pid, od, 1, 0, "quick", replay=rp, timeout=600, slow=slow)
        except subprocess.TimeoutExpired:
            rc, out, dt = 124, "timeout", 0
        log.append((f"confirm attempt {i + 1}", rc, dt, out[-500:]))
        if rc != 0:
            return True
        b = evaluate(pid, od, Batch())
        if b.crashed or b.specfails or b.diffs or b.bad:
            return True
    return False


def write_replay(pid, name, lines, header):
    d = os.path.join(WORK, pid)
    os.makedirs(d, exist_ok=True)
    path = os.path.join(d, name)
    with open(path, "w") as f:
        for h in header:
            f.write("# " + h + "\n")
        for l in lines:
            f.write(l + "\n")
    return path


def sweep_scratch():
    """scratch directories of harness processes that were killed before they could clean up (older than 6 hours)"""
    import glob, shutil, time
    for d in glob.glob("/tmp/hv-*"):
        try:
            if time.time() - os.path.getmtime(d) > 6 * 3600:
                shutil.rmtree(d, ignore_errors=True)
        except OSError:
            pass


def main(argv):
    import argparse
    ap = argparse.ArgumentParser()
    ap.add_argument("pid")
    ap.add_argument("--tier", default=os.environ.get("VERIF_TIER", "quick"))
    ap.add_argument("--seed", type=int, default=int(os.environ.get("VERIF_SEED", "1") or 1))
    ap.add_argument("--replay", default=None)
    ap.add_argument("--n", type=int, default=None)
    a = ap.parse_args(argv)
    sweep_scratch()
    pid, tier = a.pid, ("thorough" if a.tier == "thorough" else "quick")
    if pid not in PROPS:
        print(f"unknown property {pid}")
        return 2
    cfg = PROPS[pid]
    t0 = time.time()
    log = []
    obligations = []   # (name, ok, detail)
    broken = []        # human readable reasons (proof obligation / correspondence broken)
    wd = os.path.join(WORK, pid)
    os.makedirs(wd, exist_ok=True)

    # ---------------- build phase (serialised) ----------------
    with BuildLock():
        ok, failed = regen_facts(log)
        for g in cfg.get("gen", []):
            good = g not in failed and "<gofacts build>" not in failed
            obligations.append((f"facts:{g} regenerated from {REPO}", good, "" if good else "extractor failed"))
            if not good:
                broken.append(f"fact extractor {g} no longer recognises the source shape")
        okp, outp = lake_build([f"HavocVerif.Props.{pid}"], log)
        okd, outd = lake_build(["driver"], log)
        thms, axioms, auderr = ([], {}, "")
        if okp:
            thms, axioms, auderr = audit_axioms(pid, log)
        else:
            try:
                thms = theorems_of(pid)
            except OSError:
                thms = []
        okh, outh = build_harness(log)
    forb = forbidden_scan()

    if okp:
        for t in thms:
            ax = axioms.get(t)
            if ax is None:
                obligations.append((f"theorem {t}", False, "not found by #print axioms"))
                broken.append(f"theorem {t}: axioms audit failed")
            else:
                extra = [x for x in ax if x not in ALLOWED_AXIOMS]
                obligations.append((f"theorem {t}", not extra, "axioms: " + (", ".join(ax) or "none")))
                if extra:
                    broken.append(f"theorem {t} depends on disallowed axioms {extra}")
    else:
        errs = re.findall(r"error: (HavocVerif/\S+?\.lean:\d+:\d+: .*)", outp)
        mods = sorted(set(re.findall(r"^- (HavocVerif\.\S+)", outp, re.M)))
        for t in thms:
            obligations.append((f"theorem {t}", False, "lake build failed"))
        broken.append("lake build HavocVerif.Props.%s failed (%s): %s" % (pid, ", ".join(mods), "; ".join(errs[:3])))
    obligations.append(("no sorry/admit/axiom/native_decide/bv_decide/implemented_by/unsafe in lean/", not forb,
                        "; ".join(forb[:5])))
    if forb:
        broken.append("forbidden tokens: " + "; ".join(forb[:5]))
    if not okd:
        broken.append("lake build driver failed")
    if not okh:
        broken.append("go build of the harness against /repo failed: " + outh[-400:].replace("\n", " | "))

    if tier == "thorough" and okp and cfg.get("leanchecker", True):
        rc, out, dt = sh(["lake", "env", "leanchecker", f"HavocVerif.Props.{pid}"], cwd=LEAN)
        log.append(("leanchecker", rc, dt, out[-2000:]))
        obligations.append((f"leanchecker HavocVerif.Props.{pid}", rc == 0, out[-200:].strip()))
        if rc != 0:
            broken.append("leanchecker rejected the compiled proofs")

    # ---------------- run phase ----------------
    batch = Batch()
    findings = load_findings(pid)
    open_classes = {f["class"]: f for f in findings if f.get("status") == "open"}
    runs = []
    if okd and okh:
        if a.replay:
            runs.append(("replay", os.path.abspath(a.replay), a.seed, 0))
        else:
            for cf in sorted(glob.glob(os.path.join(VERIF, "corpus", pid, "*.ops"))):
                runs.append(("corpus", cf, a.seed, 0))
            n = a.n or cfg["n"][tier]
            seeds = [a.seed] if tier == "quick" else [a.seed + i for i in range(cfg.get("seeds_thorough", 3))]
            for s in seeds:
                runs.append(("gen", None, s, n))
        for kind, path, seed, n in runs:
            od = os.path.join(wd, f"run_{kind}_{os.path.basename(path) if path else seed}")
            shutil.rmtree(od, ignore_errors=True)
            os.makedirs(od)
            try:
                rc, out, dt = run_harness(pid, od, seed, n, tier, replay=path,
                                          timeout=cfg.get("timeout", {}).get(tier, 900 if tier == "quick" else 4 * 3600))
            except subprocess.TimeoutExpired:
                rc, out, dt = 124, "harness timed out", 0
            log.append((f"hv {pid} {kind} seed={seed} n={n}", rc, dt, out[-3000:]))
            if rc != 0:
                # the code under test took the process down (log.Fatal / os.Exit / fatal error / watchdog):
                # history so far + the pending operation is the reproducer
                hist = []
                try:
                    hist = op_lines(od)
                except OSError:
                    pass
                start = max([i for i, l in enumerate(hist) if l == "reset" or l.startswith("reset ")] or [0])
                case = [case_key(l) for l in hist[start:]]
                try:
                    case.append(open(os.path.join(od, "pending.txt")).read().strip())
                except OSError:
                    pass
                cls = f"{pid}.process-exit"
                batch.specfails.append((cls, case, f"SPECFAIL class={cls} the teamserver process exits (code {rc}) while handling the last operation: "
                                        + out[-200:].replace("\n", " ")))
                batch.lines += len(hist)
                continue
            evaluate(pid, od, batch)
            if batch.crashed:
                broken.append("driver: " + batch.crashed)

    # ---------------- timing-dependent observations are believed only if they reproduce ----------------
    unstable = []
    if cfg.get("timing") and (batch.specfails or batch.diffs):
        keep = []
        seen = {}
        for cls, case, body in sorted(batch.specfails, key=lambda x: (len(x[1]), sum(len(l) for l in x[1]))):
            if cls in open_classes or cls.endswith(".process-exit") or cls in cfg.get("timing_exempt", []):
                keep.append((cls, case, body))
                continue
            st = seen.setdefault(cls, {"tried": 0, "confirmed": False})
            if st["confirmed"]:
                keep.append((cls, case, body))
            elif st["tried"] < 3:
                st["tried"] += 1
                if confirm_case(pid, wd, case, log):
                    st["confirmed"] = True
                    keep.append((cls, case, body))
                else:
                    unstable.append(f"{body[:200]}")
            else:
                unstable.append(f"{body[:200]}")
        batch.specfails = keep
        if batch.diffs:
            conf = False
            for case, body in sorted(batch.diffs, key=lambda x: len(x[0]))[:3]:
                if confirm_case(pid, wd, case, log):
                    conf = True
                    break
            if not conf:
                unstable += [f"{b[:200]}" for _, b in batch.diffs]
                batch.diffs = []

    # ---------------- verdict ----------------
    violations = []
    known_hit = {}
    by_class = {}
    for cls, line, body in batch.specfails:
        by_class.setdefault(cls, []).append((line, body))
    for cls, items in sorted(by_class.items()):
        if cls in open_classes:
            known_hit[cls] = items
            continue
        items.sort(key=lambda x: (len(x[0]), sum(len(l) for l in x[0])))
        path = write_replay(pid, f"{'replayed' if a.replay else 'violation'}_{re.sub(r'[^A-Za-z0-9_.-]', '_', cls)}.ops",
                            items[0][0],
                            [f"property {pid}: Spec clause {cls} is false of what the implementation did",
                             items[0][1][:400], f"{len(items)} failing case(s) in this run; shortest shown",
                             f"replay: ./check {pid} --replay <this file>"])
        violations.append((path, ""))
    if batch.diffs or batch.bad:
        broken.append(f"correspondence: model and implementation differ on {len(batch.diffs)} op(s), "
                      f"{len(batch.bad)} unreadable")
    if broken and not violations:
        lines = [l for c, _ in (batch.diffs + batch.bad)[:5] for l in c]
        hdr = [f"property {pid}: no longer shown to hold — broken obligation(s) / correspondence:"] + \
              [b[:600] for b in broken] + \
              ["model output per differing op:"] + [f"{b[:300]}" for _, b in (batch.diffs + batch.bad)[:20]] + \
              ["searched corpus + generated stream for an input on which the Spec fails: none found"]
        path = write_replay(pid, "violation_unproved.ops", lines, hdr)
        violations.append((path, " no-failing-input-found"))

    for cls, f in sorted(open_classes.items()):
        if cls in known_hit:
            print(f"KNOWN-FINDING: property={pid} {f.get('what_fails', cls)} [class={cls}, "
                  f"{len(known_hit[cls])} case(s) this run]")

    n_obl = len(obligations)
    n_dis = sum(1 for _, ok, _ in obligations if ok)
    wall = time.time() - t0
    ev = {
        "property_id": pid,
        "tier": tier,
        "seed": a.seed,
        "level": cfg.get("level", "proof"),
        "coverage": {
            "obligations": max(n_obl, 1),
            "discharged": n_dis,
            "obligation_list": [{"name": n, "ok": ok, "detail": d} for n, ok, d in obligations],
            "checker_cmd": f"cd lean && lake build HavocVerif.Props.{pid} && lake env lean work/{pid}/Audit.lean  (#print axioms)"
                           + (" && lake env leanchecker HavocVerif.Props.%s" % pid if tier == "thorough" else ""),
            "trusted_base": cfg.get("trusted_base", []),
            "evaluations": batch.lines,
            "distinct_nontrivial": len(batch.keys),
            "rule": cfg.get("rule", ""),
            "samples": batch.samples or ["(no correspondence run)"],
            "correspondence": {
                "ops_compared": batch.lines, "agree": batch.ok, "model_impl_diffs": len(batch.diffs),
                "unreadable": len(batch.bad), "spec_failures_on_impl": len(batch.specfails),
                "known_finding_cases": sum(len(v) for v in known_hit.values()),
                "input_distribution": dict(sorted(batch.dist.items())),
                "runs": [f"{k}:{os.path.basename(p) if p else 'seed=%d n=%d' % (s, n)}" for k, p, s, n in runs],
            },
            "theorems": thms,
            "gen_modules": cfg.get("gen", []),
            "broken": broken,
            "timing_unstable_observations": unstable[:20],
        },
        "assumptions": cfg.get("assumptions", []),
        "wall_s": round(wall, 2),
        "violations": len(violations),
    }
    os.makedirs(os.path.join(VERIF, "evidence"), exist_ok=True)
    with open(os.path.join(VERIF, "evidence", f"{pid}.json"), "w") as f:
        json.dump(ev, f, indent=1)
    with open(os.path.join(wd, "log.json"), "w") as f:
        json.dump([{"step": s, "rc": rc, "s": round(dt, 2), "tail": out} for s, rc, dt, out in log], f, indent=1)

    print(f"[{pid}] tier={tier} seed={a.seed} obligations {n_dis}/{n_obl} ops={batch.lines} agree={batch.ok} "
          f"diff={len(batch.diffs)} specfail={len(batch.specfails)} wall={wall:.1f}s")
    for b in broken:
        print(f"[{pid}] broken: {b[:500]}")
    if violations:
        for path, suffix in violations:
            print(f"VIOLATION property={pid} replay={path}{suffix}")
        return 1
    return 0


if __name__ == "__main__":
    sys.exit(main(sys.argv[1:]))
