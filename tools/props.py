"""Per-property configuration of the check pipeline (see tools/vcheck.py)."""

COMMON_TB = [
    "Lean 4.33.0 kernel; axioms limited to propext, Classical.choice, Quot.sound (audited per theorem by #print axioms)",
    "tools/gofacts + tools/cfacts.py (fact extractors reading /repo's current sources)",
    "harness/cmd/hv (generators, canonicalisation) and lean/Driver.lean (line protocol)",
]

PROPS = {
    "C03": {
        "level": "proof",
        "gen": ["Consts"],
        "n": {"quick": 6000, "thorough": 150000},
        "seeds_thorough": 3,
        "rule": "ops generated from one PRNG (VERIF_SEED): reference-encoded field lists (Go mirror of Demon Package.c) "
                "x every residue 0..16 of trailing bytes, raw/truncated/bit-flipped buffers, UTF-16LE of random scalar "
                "strings (astral planes, NULs, odd lengths), lone surrogates, packet string fields; a case is distinct "
                "by its input text (hash) and all are non-trivial (each exercises at least one reader)",
        "trusted_base": COMMON_TB + [
            "Go runtime / encoding/binary / unicode/utf16 semantics as modelled in Model/Parser.lean, Model/Utf16.lean",
        ],
        "assumptions": [
            "the Demon encodes packages as payloads/Demon/src/core/Package.c does (big-endian, length-prefixed); "
            "the reference encoder is Model.encodeFields and its Go mirror in harness/cmd/hv/c03.go",
        ],
    },
}
