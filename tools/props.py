"""Per-property configuration of the check pipeline (see tools/vcheck.py)."""

COMMON_TB = [
    "Lean 4.33.0 kernel; axioms limited to propext, Classical.choice, Quot.sound (audited per theorem by #print axioms)",
    "tools/gofacts + tools/cfacts.py (fact extractors reading /repo's current sources)",
    "harness/cmd/hv (generators, canonicalisation) and lean/Driver.lean (line protocol)",
]

HOOK_COMMITS = ["b430841"]

NOT_APPLICABLE = {}

PROPS = {
    "C03": {
        "level": "proof",
        "claim": "Lean 4 theorems over a hand-written executable model of parser.go / DecodeUTF16: field-for-field decode for every field list and every residue, CanIRead <-> 'the fields are all there', UTF-16 round trip incl. surrogate pairs and odd lengths. Tied to /repo by an in-process correspondence run of the real parser against the model on corpus + generated inputs, with the Spec evaluated on what the implementation returned.",
        "note": "Trusted: Lean 4.33 kernel (axioms propext / Classical.choice / Quot.sound only, audited per theorem), fact extractors, harness + driver, Go runtime and stdlib semantics as modelled; Demon encoder modelled from Package.c, not compiled. Session/registration clauses: see DESIGN.md \u00a75 C03 for what is modelled so far.",
        "technique": "Lean 4 proof (induction over field / code-unit lists) + model-vs-implementation correspondence",
        "gen": ["Consts"],
        "n": {"quick": 6000, "thorough": 150000},
        "seeds_thorough": 3,
        "rule": "ops generated from one PRNG (VERIF_SEED): reference-encoded field lists (Go mirror of Demon Package.c) "
                "x every residue 0..16 of trailing bytes, raw/truncated/bit-flipped buffers, UTF-16LE of random scalar "
                "strings (astral planes, NULs, odd lengths), lone surrogates, packet string fields; a case is distinct "
                "by its input text (hash) and all are non-trivial (each exercises at least one reader)",
        "trusted_base": COMMON_TB + [
            "Go runtime / encoding/binary / unicode/utf16 semantics as modelled in Model/Parser.lean, Model/Utf16.lean",
        ],
        "assumptions": [
            "the Demon encodes packages as payloads/Demon/src/core/Package.c does (big-endian, length-prefixed); "
            "the reference encoder is Model.encodeFields and its Go mirror in harness/cmd/hv/c03.go",
        ],
    },
    "C02": {
        "level": "proof",
        "claim": "Lean 4 theorems: for every batch, argument list and keystream the bytes BuildPayloadMessage emits, read the way Parser.c / CommandDispatcher read them, yield exactly the issued (command, request id, arguments); per-task encryption is an involution restarting at offset 0; bodies are never in clear. Demon loop bound, frame reads and reader widths are regenerated from the C sources on every run; Go/C command ids agree (decide). Correspondence: real AddJobToQueue + parseAgentRequest check-ins vs model, Spec = Demon-side decode of the real response bytes. The operator's path is driven through the real TaskPrepare for 27 commands (sleep, fs cd / remove / mkdir / download / cat / cp / mv / pwd, proc kill / modules / grep, job list / suspend / resume / kill, token impersonate / remove, pivot connect / disconnect, transfer list / stop / resume / remove, exit, process list) with parameters from the property's text classes (empty, ASCII, non-ASCII incl. characters outside the BMP, NUL-terminated, long) and integer boundaries: the frame the agent gets, read the way the Demon reads it - dispatch table -> handler -> the handler's ParserGet* sequence, all regenerated from Command.c (Gen.DemonHandlers; theorems table_resolves, table_kinds) - must carry the command, the task id the operator was told and the operator's parameters (Spec classes C02.operator-params, C02.request-id).",
        "note": "Trusted: Lean 4.33 kernel (axioms propext / Classical.choice / Quot.sound only, audited per theorem), fact extractors, harness + driver, Go runtime and stdlib semantics as modelled; AES-CTR keystream supplied from Go crypto/aes directly (theorems hold for every keystream); Demon C code modelled by hand + extracted facts, never compiled; command handlers represented by read kinds.",
        "technique": "Lean 4 proof (induction over job lists, generic keystream) + regenerated C/Go facts + correspondence",
        "gen": ["Consts", "Demon", "DemonHandlers"],
        "n": {"quick": 6000, "thorough": 120000},
        "seeds_thorough": 3,
        "rule": "cases from one PRNG: fresh world, 1-2 agents with random 32-byte keys / 16-byte IVs (1 in 10 all-zero), "
                "0-4 jobs per round with 0-4 typed arguments drawn from all eleven Go kinds (boundary ints, NUL-terminated / "
                "empty / binary strings, empty bodies), check-ins through the real parseAgentRequest; distinct by input text; "
                "a case is non-trivial when it queues or fetches at least one job",
        "trusted_base": COMMON_TB + [
            "AES-256-CTR keystream supplied by the harness from Go crypto/aes directly (independent of Havoc's wrapper); theorems hold for every keystream",
            "Demon side (Parser.c, CommandDispatcher) modelled by hand in Model/Payload.lean with loop bound, frame reads, reader widths regenerated by tools/cfacts.py; never compiled",
        ],
        "assumptions": ["Command handlers of the Demon are represented by their read kinds, not executed"],
    },
    "C04": {
        "level": "proof",
        "claim": "Lean 4 theorems over a generic model of AddJobToQueue / GetQueuedJobs / the job-no-job decision / UploadMemFileInChunks: after ANY history of enqueue and check-in operations delivered ++ queued = enqueued (exactly once, in order); no-job iff empty; batch under 30 MiB unless a single task; oversized task alone; batches maximal; chunks concatenate to the file for every length; fifo_all_schedules: for every set of threads and every schedule of their atomic queue operations the same holds and every producer's tasks come out in that producer's order; queue_accesses_guarded (regenerated lock facts): every access to JobQueue / Tasks holds Agent.JobMtx; unlocked_lost_update / unlocked_duplicate: without the lock there are schedules that lose or repeat a task. Correspondence on real agents through parseAgentRequest with multi-package requests and symbolic 30 MiB jobs.",
        "note": "Trusted: Lean 4.33 kernel (axioms propext / Classical.choice / Quot.sound only, audited per theorem), fact extractors, harness + driver, Go runtime and stdlib semantics as modelled; schedules are interleavings of whole queue operations, justified by the regenerated lock facts + the Go memory model for sync.Mutex (trusted); real-goroutine runs sample schedules only.",
        "technique": "Lean 4 proof (history induction / refinement to a list queue) + correspondence",
        "gen": ["Consts", "LockFacts"],
        "n": {"quick": 5000, "thorough": 60000},
        "seeds_thorough": 3,
        "rule": "histories from one PRNG over 1-3 agents: enqueue (symbolic argument specs; 1 case in 12 mixes jobs just below / at / "
                "above the 30 MiB limit, halves and thirds of it), check-in requests made of G (get job) and O (unsolicited output) "
                "packages in every order, operator `task clear`; plus TaskPrepare(upload) chunking at sizes around multiples of the "
                "chunk size (exact multiple always included); 6 (quick) / 60 (thorough) real-goroutine runs of concurrent producers "
                "against check-ins; distinct by input text",
        "trusted_base": COMMON_TB + [
            "harness decodes check-in responses with its own AES-CTR reference into cmd:req:bodylen triples (byte-level faithfulness is C02's job)",
        ],
        "assumptions": [
            "schedules are interleavings of whole queue operations: that every access to JobQueue / Tasks holds Agent.JobMtx is a regenerated "
            "fact (theorem queue_accesses_guarded); that a Go sync.Mutex gives mutual exclusion and happens-before is trusted (Go memory model)",
            "the real-goroutine runs (op `conc`: 2-6 producers x 200-2000 tasks against a checking-in listener side) sample schedules; the theorem "
            "fifo_all_schedules covers all of them",
        ],
    },
    "C05": {
        "level": "proof",
        "claim": "Lean 4 theorems over the gate model (IsKnownRequestID / AddRequest / RequestCompleted): an unsolicited non-exempt callback is the identity on state; over any history on any number of agents every effect was produced for an exempt kind or while the id was outstanding for that same agent; a final callback forgets the id. Correspondence drives the real TaskDispatch through parseAgentRequest with forged / replayed / cross-agent ids and observes interface effects, loot writes and session-state change.",
        "note": "Trusted: Lean 4.33 kernel (axioms propext / Classical.choice / Quot.sound only, audited per theorem), fact extractors, harness + driver, Go runtime and stdlib semantics as modelled; handlers abstracted to (effects, final?); finality labels come from the Demon-side templates.",
        "technique": "Lean 4 proof (invariant over histories) + correspondence with effect observation",
        "gen": ["Consts"],
        "n": {"quick": 6000, "thorough": 100000},
        "seeds_thorough": 3,
        "rule": "histories from one PRNG over three sessions (one an SMB pivot child): task issue (ids sometimes reused / issued to "
                "another agent) and callbacks built from 22 Demon callback templates + random field lists, carrying ids that were issued "
                "to this agent, to another agent, already completed, zero, or forged; 1 world in 5 has log forwarding on; distinct by input text",
        "trusted_base": COMMON_TB + [
            "effects are what crosses the agent.TeamServer interface (recording mock), the loot tree listing and a hash of every session's state",
        ],
        "assumptions": [
            "which callback is a task's final one is an input label taken from the Demon's handlers (templates in harness/cmd/hv/callbacks.go)",
        ],
    },
    "C08": {
        "level": "proof",
        "claim": "Lean 4 theorem wrap_unwrap: for every chain depth, every keystream assignment and every 32-bit id, the job PivotAddJob queues on the root, peeled hop by hop the way the Demon does it (SmbRecv id check, task loop under the hop's own key, DEMON_PIVOT_SMB_COMMAND forwarding), names the next hop at each layer and ends in exactly the original task under the target's key; a hop not named by the layer rejects it. Upward: relay_attribution over the gate model. Correspondence: real pivot trees (depth 1-5, boundary ids, distinct keys) fetched through parseAgentRequest and unwrapped by the Lean Demon model; relayed callbacks with parent / child / forged ids observed for attribution and gating.",
        "note": "Trusted: Lean kernel (propext/Classical.choice/Quot.sound), fact extractors, harness + driver; Demon SmbRecv / CommandPivot modelled by hand from TransportSmb.c / Command.c, never compiled; AES keystream from Go crypto/aes.",
        "technique": "Lean 4 proof (induction on chain depth) + correspondence",
        "gen": ["Consts", "Demon"],
        "n": {"quick": 4000, "thorough": 60000},
        "seeds_thorough": 3,
        "rule": "worlds from one PRNG: a root with 1-2 chains of SMB pivots of depth 1-5, random 32-byte keys / IVs per agent, ids random or from a boundary set "
                "(1, 0x7fffffff, 0x80000000, 0xffffffff, ...); tasks with 0-3 typed arguments for random targets, root check-ins; relayed callbacks whose "
                "request id is outstanding for the child, for the parent only, or forged, with wrapper ids that are / are not outstanding for the parent",
        "trusted_base": COMMON_TB + ["Demon SMB hop behaviour modelled in Model/Pivot.lean from TransportSmb.c and Command.c"],
        "assumptions": ["pivot links form a forest (C09)"],
    },
    "C01": {
        "level": "proof",
        "claim": "Lean 4 theorems: every reader of parser.go is panic-free on every buffer (a second model with every Go slice expression checked refines to the pure one), readers never consume more than the buffer, the header / magic / unknown-agent path rejects without touching the session table (reject_pure), requests under 16 bytes never reach a handler, the package loop of handleDemonAgent terminates within the buffer length, and every mutex-using function of pkg/agent, pkg/handlers, pkg/socks is lock-balanced (event sequences regenerated from the source on every run, decide + soundness lemma). The per-command bodies of TaskDispatch are NOT proved total: they are driven by correspondence (real server.Teamserver, corrupted Demon packages over reachable states) with panic / watchdog / TryLock / state-change observation, judged by the Spec.",
        "note": "Trusted: Lean kernel (propext/Classical.choice/Quot.sound), fact extractors (lock events in source order: branches are linearised, so a leak on a branch that re-locks later can be missed), harness + driver. Library calls inside TaskDispatch (tablewriter, json, bmp, net.Dial) assumed not to panic. Third-party (service) agent traffic needs a live service connection and is not exercised.",
        "technique": "Lean 4 proof (refinement of a fault-monad model, termination by fuel bound, regenerated lock facts) + correspondence with crash/lock/state observation",
        "gen": ["Consts", "LockFacts"],
        "n": {"quick": 8000, "thorough": 150000},
        "seeds_thorough": 4,
        "rule": "requests from one PRNG against a real server.Teamserver (temp SQLite, temp loot) with 0-4 agents registered through the real path, outstanding request ids, "
                "open downloads and pivot links, with and without a Service block: 60% Demon packages of 1-3 callbacks from 25 templates + random field lists (one third with truncated / "
                "bit-flipped / length-corrupted bodies), pivot connects with valid and failing inner registrations, relayed packages, registration attempts (valid / corrupted), "
                "arbitrary bytes, foreign magic values; distinct by input text",
        "trusted_base": COMMON_TB + ["panic signature = kind @ innermost Havoc frame (runtime/debug.Stack)"],
        "assumptions": ["sequential requests (one at a time); concurrency of listener goroutines is outside this check"],
    },
    "C09": {
        "level": "proof",
        "claim": "Lean 4 theorem forest_inv: after ANY sequence of register / connect (new agent, existing agent, the sender itself, an ancestor) / reconnect / disconnect / death / mark-alive events, an agent is in a parent's links exactly when that parent is its parent, links have no duplicates, TS_Links holds exactly the live links, nobody is its own parent; died_detaches_all for any number of links; the cycle guard is sound and attaching below a non-descendant preserves acyclicity (acyclic_partial: completeness of the fuel-bounded guard is by correspondence). Correspondence: the real server.Teamserver + SQLite driven by SMB connect / disconnect / exit / kill-date callbacks and operator mark events; in-memory parents / links and TS_Links rows compared with the model after every event, forest clauses evaluated on the observation.",
        "note": "Trusted: Lean kernel (propext/Classical.choice/Quot.sound), harness + driver; the model's loop form of UnlinkFromAll is tied to the proved diedSpec form by the driver on every explored state and by decide-examples, not by a theorem; SQLite statement semantics.",
        "technique": "Lean 4 proof (invariant over event histories, Acc-based acyclicity) + correspondence against real teamserver + SQLite",
        "gen": ["Consts"],
        "n": {"quick": 5000, "thorough": 80000},
        "seeds_thorough": 3,
        "rule": "event sequences from one PRNG over a universe of 5 agent ids (one >= 0x80000000): 3-14 events per case drawn from connect (weighted), disconnect, exit, kill date, mark dead / alive, "
                "register; operands mostly existing agents (so events take effect), self- and ancestor-connects included; distinct by input text",
        "trusted_base": COMMON_TB + ["observation = Pivots.Parent / Pivots.Links of every session + SELECT on TS_Links through a second connection"],
        "assumptions": ["events are processed one at a time"],
    },
    "C10": {
        "level": "proof",
        "claim": "Lean 4 theorems over a model of the persistence layer: SQLite column affinity from the DECLARED types (regenerated from db.go) - every column read back into a Go string has TEXT affinity and returns every string byte for byte, integer columns have INTEGER affinity (and the old declaration `string` is NUMERIC and alters \"007\"); INSERT / UPDATE / SELECT / Scan lists of TS_Agents line up position by position (decide over regenerated lists); one row per agent id / listener name after any operation sequence; exactly the active rows are reloaded with their stored record; a registration is reloadable from the moment AgentAdd returns; every statement prefix of a pivot registration is free of dangling links, with the statement order regenerated from demons.go. Correspondence: operation sequences on a real teamserver, the SQLite file copied and reopened after every operation and after every interface-level database call inside an operation (kill points), compared field by field with the live sessions.",
        "note": "Trusted: Lean kernel (propext/Classical.choice/Quot.sound), fact extractors, harness + driver; SQLite: atomic durable single statements and the affinity rules as documented; numeric conversion of NUMERIC columns modelled only for plain digit strings; kill points inside Died/UnlinkFromAll (several statements behind one interface call) are not separated.",
        "technique": "Lean 4 proof (regenerated schema facts by decide, invariants over operation histories, statement-prefix crash consistency) + correspondence with database snapshots at kill points",
        "gen": ["Consts", "SqlSchema"],
        "n": {"quick": 2000, "thorough": 30000},
        "seeds_thorough": 3,
        "rule": "operation sequences from one PRNG over 6 agent ids (three >= 0x7fffffff): registration, COMMAND_CHECKIN metadata updates, sleep updates, pivot connect (new / existing), disconnect, exit, mark dead / alive, "
                "listener add / remove with names that differ only in case, `_`/`%`, digits; metadata strings half of the time drawn from a list that SQLite affinity would alter (007, 1e3, ' 12 ', 0x10, 1e400, empty, non-ASCII ...); "
                "every operation yields 1 + (number of database calls inside it) reopened snapshots; distinct by input text",
        "trusted_base": COMMON_TB + ["restore is read through db.DatabaseNew + AgentAll / ParentOf / LinksOf / ListenerAll, the calls Teamserver.Start makes"],
        "assumptions": ["a kill never lands inside one SQLite statement"],
    },
    "C06": {
        "level": "proof",
        "timing": True,
        "claim": "Lean 4 theorems over a model of the operator handshake and fan-out (handleRequest / ClientAuthenticate / EventBroadcast / SendAllPackagesToNewClient / RemoveClient) and of the service endpoint (authenticate / routine / dispatch registrations / ClientClose): a connection authenticates iff its first message has the init event, the OAuth sub-event, names a profile operator and carries exactly that operator's stored digest as a JSON string (auth_iff, login_success_iff); any other first message gets exactly one error frame, nothing is recorded and the connection is dead (failed_login_one_error, nonfresh_message_inert); for EVERY history every frame a connection ever received is an error answer or the connection had authenticated by then (run_silence, by induction with step_silence / broadcast_only_authed); a connection becomes authenticated only by such a message (authed_only_by_login). Service endpoint: accepted iff the message decodes, is of type Register and the digests agree (svc_auth_iff); for every history everything registered is owned by a currently authenticated connection (svc_nothing_before_password) and authentication only arises from the password (svc_authed_only_by_password). Correspondence: a REAL teamserver (gin + wss on loopback, temp SQLite, profile with two operators and a Service block), real websocket clients to /havoc/ and to the service endpoint sending first messages of 16 + 12 shapes and follow-ups, with broadcasts and agent registrations injected before / between / after the handshake; frames received by every connection, client table, listeners, event log and service registry observed after every operation; teamserver liveness by process-exit detection.",
        "note": "Trusted: Lean kernel (propext/Classical.choice/Quot.sound), harness + driver; the summary of a message (event, sub-event, user, password kind/value; Head.Type/Body.Password) is computed by Go's encoding/json into the server's own struct types, so JSON decoding itself is trusted, not modelled. Timing: frames are collected 25-40 ms after each operation on loopback. The race between a broadcast and the instant Authenticated is set is covered by the model's atomic steps plus injections at every handshake point, not by schedule enumeration. SHA3-256 is a parameter H of the service model (nothing assumed about it); the driver instantiates it with the identity, i.e. assumes no digest collision among the generated passwords.",
        "technique": "Lean 4 proof (handshake decision, history induction for pre-authentication silence, service registry invariant) + correspondence against a real teamserver over websockets",
        "gen": ["Consts"],
        "n": {"quick": 1100, "thorough": 6000},
        "seeds_thorough": 3,
        "timeout": {"quick": 600, "thorough": 3600},
        "rule": "sessions from one PRNG: 2/3 operator-endpoint sessions (optional authenticated witness, connection a, first message of 16 shapes: valid, wrong / plaintext / missing / numeric password, unknown / wrong-case user, missing Info, wrong event, wrong sub-event, non-JSON of 7 kinds, extra fields; 0-2 follow-ups from the unauthenticated connection: listener add, chat, mark-dead, garbage; broadcast or agent registration injected at each of the 2-5 gaps; optional close), 1/3 service-endpoint sessions (1-2 connections, hello of 12 shapes: valid, wrong / hashed / missing / numeric password, wrong type, non-JSON, trailing bytes, RegisterAgent first; 0-5 follow-ups: RegisterAgent of 3 names, further wrong-password hellos, garbage, unknown listener request); distinct by input text",
        "trusted_base": COMMON_TB + ["Go encoding/json (message summaries)", "loopback websockets, 25-40 ms collection windows"],
        "assumptions": ["no SHA3-256 collision among generated passwords", "messages of an AUTHENTICATED operator are outside C06 (DispatchEvent)"],
    },
    "C07": {
        "level": "proof",
        "claim": "Lean 4 theorems over byte-level models of strings.Split / Join / HasPrefix and filepath.Clean: a path that passes the containment test of the loot code has the directory's cleaned components as a COMPONENT-WISE prefix, for every name (insideDir_components, by induction over components; the old string-prefix test provably accepts a sibling directory); every download DownloadAdd opens lies below the agent's Download directory; accepted agent ids are single path components; chunks for unknown ids are written nowhere; a file written through one handle equals the concatenation of its chunks. Correspondence: the real TaskDispatch download callbacks (both protocols) and the five logr writers with crafted names / ids on a temp loot tree; the tree two levels above the loot root is diffed after every operation and compared with the model file system; containment and content clauses are evaluated on the observed tree.",
        "note": "Trusted: Lean kernel (propext/Classical.choice/Quot.sound), harness + driver; path resolution is modelled component-wise as the OS does it for a tree without symlinks (agents cannot create them): every walked component must exist, a NUL byte is refused; PNG conversion of screenshots not modelled. Known finding (open): overlapping transfers to one local file.",
        "technique": "Lean 4 proof (component-wise containment from a string-prefix test, append-only handle semantics) + correspondence against the real file system",
        "gen": ["Consts"],
        "n": {"quick": 6000, "thorough": 120000},
        "seeds_thorough": 3,
        "rule": "operation sequences from one PRNG over three agents and 5 file ids: open / write / close through COMMAND_FS download and through BEACON_OUTPUT file callbacks with 25 path shapes (.., mixed / and \\, "
                "prefixes of the directory's own name, NULs, empty, absolute, another agent's folder) plus random names; the five logr writers with 12 agent-id shapes (../../x, a/../b, ., .., empty, separators); distinct by input text",
        "trusted_base": COMMON_TB + ["tree listing + file contents of a sandbox directory two levels above the loot root"],
        "assumptions": ["no symlinks inside the loot tree"],
    },
    "C11": {
        "level": "proof",
        "timing": True,
        # read from the server's own state after all recording goroutines have joined: not a timing-dependent observation
        "timing_exempt": ["C11.lost-event", "C11.lost-frame", "C11.blocked", "C11.duplicate-frame"],
        "claim": "Lean 4 theorems over a model of event distribution (handleRequest after login, EventAppend, EventBroadcast, SendEvent, SendAllPackagesToNewClient, RemoveClient, ListenerRemove pruning, Died): a newcomer receives the success answer, then the whole retained log in recording order (its own connect event last), then the live sessions (login_replay); a recorded event reaches every authenticated, healthy operator except the excluded one exactly once and nobody else, and is retained at the end of the log unless one-shot (broadcast_exact, record_exact, oneshot_not_retained); every operation keeps the retained log in order (retained_order); for every history, no add event of a removed listener stays in the replay list (ListenerInv, run_listenerInv, removed_listener_not_replayed); for every history and every point at which an operator's transport is cut, every other connection receives exactly the same frames in the same order, and the log is the same, as if it had stayed healthy (dead_operator_blocks_nobody, dead_operator_same_log, by a simulation relation). Regenerated facts: every mutex-taking function of cmd/server and pkg/service releases it on every path (server_locks_balanced); SendEvent sets a write deadline between Lock and the write (sendEvent_deadline_before_write); the replay loop's shape (replay_shape). Correspondence: a REAL teamserver with real websocket operators: logins at every point of histories of recorded / one-shot / excluded broadcasts, operator chat, SMB listener add / remove through the operator protocol, agent registrations and deaths, connections closed or cut, and (thorough tier + a corpus case) an operator that stops reading while 20 MiB of events are broadcast; frames of every connection in order, the retained log and completion of every call within a bound observed after every operation.",
        "note": "Trusted: Lean kernel (propext/Classical.choice/Quot.sound), fact extractors, harness + driver (event codes are read from packager.Type at run time). Interleavings of concurrent broadcasters are represented by atomic model steps; the real concurrency of EventsList appends is exercised only by the `burst` operation (several goroutines recording at once) and not enumerated. Stall detection needs the 15 s write deadline to expire, so it is a single corpus case in the quick tier.",
        "technique": "Lean 4 proof (replay / fan-out exactness, log invariants, fault-independence by simulation, regenerated lock + call-order facts) + correspondence against a real teamserver over websockets",
        "gen": ["Consts", "LockFacts", "CallSeq"],
        "n": {"quick": 700, "thorough": 6000},
        "seeds_thorough": 3,
        "timeout": {"quick": 900, "thorough": 5400},
        "rule": "histories of 6-19 operations from one PRNG over up to 4 connections and 2 operators: connect, login (next free operator), record (1/4 one-shot, 1/3 excluding a logged-in operator), operator chat, ladd / lremove of 3 listener names (duplicates and unknown names included), agent registration, mark-dead, close / cut of a logged-in operator; thorough tier: 1 in 6 histories stalls an operator and floods 40 x 512 KiB one-shot events; distinct by input text",
        "trusted_base": COMMON_TB + ["loopback websockets, 25-60 ms collection windows"],
        "assumptions": ["operators log in with distinct user names", "frames are collected after the server goroutines have settled (sequential harness)"],
    },
    "C12": {
        "level": "proof",
        "timing": True,
        "claim": "Lean 4 theorems over a model of (*HTTP).request: admit_iff states the decision logic outright (POST, URI list incl. the [\"\"] case, User-Agent, every configured non-ignored header with its full value, case-insensitively); non-POST never reaches the protocol; header values / response header values are split once, so values containing ': ' / ':' are whole; the recorded address is the peer host unless the redirector flag is set. Correspondence: REAL listeners started with (*HTTP).Start on loopback (IPv4 and IPv6 peers), real HTTP requests over TCP carrying a valid registration, so reaching the protocol is observed as a new session with its ExternalIP; status / decoy class / response headers compared with the model and judged by the Spec.",
        "note": "Trusted: Lean kernel (propext/Classical.choice/Quot.sound), harness + driver, Go net/http + gin (header canonicalisation, first-value Get, malformed request lines answered 400 by net/http before the listener sees them). ListenerStart / ListenerEdit through a real Teamserver are exercised by the `viaserver` operation and under C16.",
        "technique": "Lean 4 proof (decision logic stated outright) + correspondence against real listeners over TCP",
        "gen": ["Consts"],
        "n": {"quick": 3000, "thorough": 40000},
        "seeds_thorough": 3,
        "rule": "listener configurations from one PRNG (0-3 URIs incl. the [\"\"] form, 0-3 request headers from a pool with ': ' / ':' in values, ignored headers, entries without ': ', user agent set/unset, 0-3 response headers with colons / padding, redirector flag) x 8-17 requests each: methods POST/GET/PUT/HEAD/OPTIONS/DELETE/PATCH/post, configured and foreign URIs with and without query, each configured header present / dropped / truncated at ': ' / extended / upper-cased / lower-cased name, user agent right / wrong / absent, X-Forwarded-For present or not, IPv4 and IPv6 peers; distinct by input text",
        "trusted_base": COMMON_TB + ["a request 'reaches the protocol' iff the mock TeamServer records a new session for its (fresh) registration"],
        "assumptions": ["one value per header name in a request"],
    },
    "C13": {
        "level": "proof",
        "claim": "Lean 4 theorems over a model of the Demon configuration block (builder.go PatchConfig, packer.go, ParseWorkingHours, EncodeUTF16) and of its reader (Demon.c DemonConfig over Parser.c): for every configuration whose numbers fit their fields the Demon reads back exactly what was packed and consumes exactly the block (readCfg_packCfg / config_roundtrip, by induction over host / header / URI lists); whenever a block is produced it is the packing of the operator's choice `specCfg` (payload_is_what_was_chosen, options_are_chosen: every option field incl. technique / gadget / stack duplication / proxy loading / syscall / AMSI codes); for SMB payloads unconditionally for all options, pipe names, kill dates and working-hours strings (smb_payload_total); every accepted working-hours value survives the bit packing (hours_roundtrip) and the accepted grammar is pinned by examples; out-of-range sleep / jitter, GET, unparsable or out-of-range ports and bad working hours fail the build (bad_*_fails). Regenerated facts: the read sequence of DemonConfig() for both transports, little-endian reads, the pack sequence of PatchConfig, agreement of the enumerations between builder.go, the Demon headers and the model, the service-name check preceding every define. Correspondence: the REAL Builder (SetConfig with the operator's JSON, SetListener with real HTTP / SMB listener configurations) runs PatchConfig twice on the same listener object; the Lean reader is run on the produced bytes and compared with `specCfg`, and the bytes with the model's; whole Build() runs of a service executable with stub compilers record the argv they receive and whether anything else was executed.",
        "note": "Trusted: Lean kernel (propext/Classical.choice/Quot.sound), fact extractors (tools/cfacts.py preprocesses DemonConfig for each transport define), harness + driver. The Demon side is the Lean reader `readCfg`, tied to Demon.c only by the regenerated read sequence and endianness facts - the C code is not executed. Host names are assumed not to be names of local network interfaces (GetInterfaceIpv4Addr would replace them) and strings contain no NUL. The HTTP end-to-end theorem keeps the well-formedness of the produced configuration (WfCfg: units below 2^16, lengths below 2^32) as a hypothesis; the correspondence run evaluates it on every generated case.",
        "technique": "Lean 4 proof (pack/read round trip by induction, decision lemmas, bit-packing arithmetic, regenerated shape facts) + correspondence against the real Builder and a stubbed compiler",
        "gen": ["Consts", "CallSeq", "DemonConfig"],
        "n": {"quick": 4000, "thorough": 60000},
        "seeds_thorough": 3,
        "rule": "from one PRNG: half of the builds with valid-shaped options (every enumerated choice, sleep 0-3599, jitter 0-100, Unicode spawn paths incl. astral planes) and listeners (3/4 HTTP: 1-3 hosts with and without ports, port fallback PortConn -> PortBind, 0-3 headers / URIs, host header, proxy, working hours from the accepted grammar; 1/4 SMB), half with arbitrary ones (boundary and malformed integers, unknown enum strings, empty strings, missing jitter, ports 0 / 65535 / 65536 / -1 / abc, GET, malformed and inverted working hours); 1 in 40 a whole service-executable Build() with one of 11 service names (plain, with space, with quotes, ;, &&, |, newline, $(...) and backtick substitutions, empty); distinct by input text",
        "trusted_base": COMMON_TB + ["stub compiler / assembler shell scripts recording argv"],
        "assumptions": ["host names are not local interface names", "operator strings contain no NUL"],
    },
    "C14": {
        "level": "proof",
        "claim": "Lean 4 theorems over a model of the dialect's quoted string literal (scan_string_lit.go + ParseStringLiteralToken): every byte string has a spelling that reads back as exactly that string (every_string_has_a_spelling, \\xHH for all bytes, by induction with the greedy hexadecimal run), the readable spelling with raw text and \\n \\r \\t \\\" \\\\ reads back too (readable_spelling), $${ and %%{ mean ${ and %{ and an unescaped marker is not text (escaped_*_brace, unescaped_marker_is_not_text); decide-level facts about the profile schema regenerated from the struct tags of pkg/profile/config.go (block structs resolve, names unique, the list of required settings, the labelled block) and lemmas about the loading oracle `expected` (written entries kept, additions are zero values of unmentioned attributes). Correspondence: configurations generated by reflection over profile.HavocConfig (every block / attribute presence combination, Unicode strings with quotes, backslashes, newlines, ${ and %{ sequences, lists, maps, labels, repeated blocks) are written as profile text with random attribute order, comments, blank lines, per-character string spellings (raw / short escape / \\xHH / $${ / heredoc), numbers and flags as strings, loaded by the real profile.SetProfile, and the loaded struct must be the written one (`expected`); every string literal written must read back under the Lean `unquote`; one-fault profiles (required attribute dropped, single block repeated, unknown attribute, value of the wrong kind) must be refused with a diagnostic that names the setting or points at its line.",
        "note": "Trusted: Lean kernel (propext/Classical.choice/Quot.sound), schema extractor, harness (writer, struct dump) + driver. The native-syntax parser and gohcl decoder are exercised, not modelled: only the string-literal layer and the schema are. \\u / \\U escapes do not work in this dialect and are not used.",
        "technique": "Lean 4 proof (string-literal round trip for all byte strings, schema facts) + correspondence of the real profile loader against a schema-driven oracle on generated configurations and one-fault mutations",
        "gen": ["ProfileSchema"],
        "n": {"quick": 2500, "thorough": 40000},
        "seeds_thorough": 3,
        "rule": "from one PRNG: each block of the schema present with probability 2/3 (top-level blocks always), repeated blocks 0-2 times, optional attributes 1/2; strings from a pool of 31 tricky values or random (ASCII, BMP, CJK, template / quote characters), ints from boundary pool, lists 0-3, maps 0-2; writer chooses order, comments, spacing and a spelling per character; 1/3 of the files carry one fault at a random entry; distinct by input text",
        "trusted_base": COMMON_TB + ["golang.org/x/text/unicode/norm (classification of the NFC known finding only)"],
        "assumptions": [],
    },
    "C15": {
        "level": "proof",
        "timing": True,
        "claim": "Lean 4 theorems over a stream model of SubNegotiationClient / ReadSocksHeader / CreateResponsePackage / SendConnectFailure and the `socks add` handler: for every client byte stream, no-authentication is selected iff offered, otherwise 05 FF and nothing else (negotiation_rfc1928); a well-formed request of any address type (domain lengths 0..255) after any method list reaches the agent as exactly that address type, address and port, and only CONNECT is accepted (request_reported_exactly); replies parse back to exactly (code, type, address, port) (reply_wellformed); failure codes; relayed payloads are chunking independent; every mutex-using function of pkg/agent and pkg/socks is lock-balanced and every access to SocksCli / SocksSvr / PortFwds happens with the table's mutex held (regenerated event sequences, decide). Correspondence: a REAL proxy started by TaskPrepare(\"socks add\") on loopback, real TCP clients sending the handshake under random chunkings and truncations, the agent played through TaskDispatch; replies, the CONNECT task, write tasks, client-side bytes and table sizes observed. Port forwards: model Model/PortFwd.lean (table + targets) with theorems pf_unknown_inert, pf_write_appends, pf_refused_dial_keeps_closed, pf_dial_when_up, pf_removed_gone; real loopback targets, the agent played through TaskDispatch (OPEN / READ / RPORTFWD_REMOVE), bytes at the target, write tasks for the agent, table and open connections compared.",
        "note": "Trusted: Lean kernel (propext/Classical.choice/Quot.sound), fact extractor (source-order scan, branches linearised), harness + driver (chunks are sent 2 ms apart with TCP_NODELAY so that the server sees the segmentation; timing based collection windows of 25-40 ms). Interleavings of concurrent table operations are covered by the lock facts, not by schedule enumeration; the unsynchronised `Connected` flag and `Socks.Clients` slice are outside the model.",
        "technique": "Lean 4 proof (stream readers, reply round trip, regenerated lock/guard facts) + correspondence against a real proxy over TCP",
        "gen": ["Consts", "LockFacts"],
        "n": {"quick": 900, "thorough": 12000},
        "seeds_thorough": 3,
        "timeout": {"quick": 600, "thorough": 3600},
        "rule": "client sessions from one PRNG: method lists of 0-4 entries (with / without no-auth), wrong versions, requests with commands 0-3, address types 1/3/4/invalid, domain lengths 0,1,5,11,63,255, reserved byte set, random ports; 1 in 5 truncated at a random byte; every stream sent under a random chunking; sessions that reach CONNECT continue with success / each failure code, client writes under random chunkings, agent reads, and close from either side; 1 case in 5 is a reverse port-forward history over 1-3 forwards whose loopback targets are up, down, or come up later: client reports, relayed data, target answers, removals, data for unknown ids; distinct by input text",
        "trusted_base": COMMON_TB + ["loopback TCP, 2 ms inter-chunk gaps"],
        "assumptions": ["a client does not pipeline data before the success reply"],
    },
    "C16": {
        "level": "proof",
        "timing": True,
        "timing_exempt": ["C16.process-exit"],
        "claim": "Lean 4 theorems over a model of the listener registry in its three views (ListenerStart / ListenerRemove / ListenerServiceExc2Add / ListenerServiceExc2Remove, TS_Listeners, retained Listener/Add events, endpoint table) and of the service registries (ClientClose): an invariant — names unique, persisted names unique, persisted = running built-in = advertised as sets — holds after every operation and hence for every history of add (new, duplicate, rejected, failed start), remove (known, unknown), service External-C2 registration and service disconnect (step_inv, run_inv_from, three_views); a rejected add leaves no trace (rejected_add_leaves_no_trace); when a service connection goes away exactly its listeners, endpoints, agent types and listener kinds go and every view of the built-in listeners is untouched (svcGone_exact, svcGone_endpoints, dropOwner_exact, svcGone_keeps_views). Regenerated facts: service mutex balance, order of Stop / row delete / forget in ListenerRemove. Correspondence: a REAL teamserver; an authenticated operator adds / edits / removes SMB, External and HTTP listeners (duplicates, unknown names, shared endpoints, occupied ports, a half-sent request pending at removal) through the operator protocol; real service connections register agent types, listener kinds and External-C2 listeners and disconnect singly or all at once; after every operation Teamserver.Listeners, TS_Listeners, the retained add events, the endpoint table, the service registries, TCP reachability of HTTP ports and the effect of an edit on the next request are observed.",
        "note": "Trusted: Lean kernel (propext/Classical.choice/Quot.sound), fact extractors, harness + driver. Removing an HTTP listener takes its fixed 5 s shutdown window, so only a few such removals fit in the quick tier. DB write failures are outside the model. Concurrent disconnects are exercised (scloseall) but interleavings are not enumerated.",
        "technique": "Lean 4 proof (registry invariant by induction over operations, ownership lemmas, regenerated facts) + correspondence against a real teamserver (operator protocol, service websocket, TCP probes)",
        "gen": ["Consts", "LockFacts", "CallSeq"],
        "n": {"quick": 500, "thorough": 4000},
        "seeds_thorough": 3,
        "timeout": {"quick": 900, "thorough": 5400},
        "rule": "histories of 5-16 operations from one PRNG: ladd smb / ext (4 names, 3 endpoints), ladd http / httpbusy (2 names) followed by probes and an optional edit with probes under the old and new user agent, lremove of a used name (HTTP: optionally with a half-open client) or of any name, up to 3 service connections registering agent types (4), listener kinds (4) and External-C2 listeners (names and endpoints colliding with the operator's), sclose of one or all connections; distinct by input text",
        "trusted_base": COMMON_TB + ["loopback websockets / TCP, 40-80 ms collection windows"],
        "assumptions": ["the database accepts every statement"],
    },
    "C17": {
        "level": "proof",
        "claim": "Lean 4 theorems for the structural consequences the property names: a token stream that covers its input (in source order, without overlap, each token carrying the input bytes of its range) loses nothing - the skipped stretches and the tokens put together are exactly the input (covering_tokens_lose_nothing, whole_input, for all inputs and token lists); in a tree whose children lie inside their parents every range lies inside the root and hence inside the input (nested_all_within, nested_in_bounds, by mutual induction); the range algebra of pos.go (rangeOver_contains, rangeBetween_contains). Correspondence / search: byte strings - grammar-generated configurations, expressions, templates, traversals and JSON documents, then mutated (truncation at random offsets, deletions, bit flips, invalid UTF-8, BOM, CR, swapped and duplicated stretches), structural soup, nesting up to depth 320, random bytes - are fed to ParseConfig / LexConfig, ParseExpression / LexExpression, ParseTemplate / LexTemplate, ParseTraversalAbs and the JSON parser under a panic guard and a 4 s watchdog; the Lean driver decides `covers`, the reconstruction, blank-only gaps, `nested` and in-bounds for the token stream, the node tree (hclsyntax.Walk) and every diagnostic range, and that an input without error diagnostics also evaluates and decodes without a panic.",
        "note": "Trusted: Lean kernel (propext/Classical.choice/Quot.sound), harness + driver. The scanners are generated state machines and the parsers are not modelled: that they never panic or hang and always produce covering streams and nested trees is searched for, not proved (a counterexample is a replayable input; absence of one is not a proof). The grouping pseudo-nodes Attributes / Blocks (documented as having no range of their own) are transparent in the tree; a byte order mark at offset 0 counts as a blank.",
        "technique": "Lean 4 proof (reconstruction and nesting theorems for all inputs) + generated / mutated inputs against every public parser entry point with the Lean definitions as the oracle",
        "gen": [],
        "n": {"quick": 8000, "thorough": 150000},
        "seeds_thorough": 3,
        "rule": "from one PRNG: 30% generated configuration files, 20% expressions (depth 1-4 over 12 constructs), 10% templates, 5% traversals, 10% JSON, 10% structural soup (1-25 pieces of 40), 5% deep nesting (20-319 levels of 10 bracket kinds), 5% random bytes; 0-2 mutations of 8 kinds on each; inputs capped at 700 bytes; distinct by input text",
        "trusted_base": COMMON_TB,
        "assumptions": [],
    },
    "C18": {
        "level": "proof",
        "claim": "A Lean 4 reference semantics of yaotl expressions and templates (`Hx.eval`: literals, variables, exact integer arithmetic, comparison, equality across types, logic without short-circuit, conditionals with result-type unification and typed unknowns, tuple / object construction, index, attribute access, splats (null, scalars / objects / maps as a sequence of one, per-element traversal), for-expressions (key variable, filters, object results, grouping, duplicate and null keys, iteration order of objects and maps), templates with interpolation, the single-interpolation pass-through, strip markers, %{ if } and %{ for } directives, plain and flush heredocs, function calls: name lookup, the expanding final argument, arity, conversion of every argument to its parameter's type, null arguments) with theorems for ALL operands: arithmetic and comparison are exact (add_exact … ge_exact, no wrap-around), equality across types is false and never an error, ill-typed operands / unknown names / missing attributes / out-of-range indexes yield an error and an operand's error is never dropped (arith_on_bool_is_error … error_propagates), the conditional returns the chosen branch converted to the common type and reports inconsistent types (cond_true, cond_inconsistent_types), \"${x}\" is x itself; flush heredocs: a line that starts with an interpolation pins the cut to 0 and the text is kept as written, the cut never exceeds a counted line's indentation (Flush.interp_at_line_start_pins_zero, Flush.flush_cuts_blanks_only); function calls: an unknown name, a wrong number of arguments, an expanding argument that is not a sequence, a null or unconvertible argument anywhere make the call an error (Call.unknown_function_is_error, wrong_arity_is_error, expand_of_non_sequence_is_error, null_for_typed_parameter, bad_argument_is_error); a conditional takes a literal null to the other result's type and converts nothing when a type is unknown (condType_null_left, cond_null_chosen_is_typed, cond_unknown_type_passes_through). Precedence and associativity: a model of parseBinaryOps / the parenthesised term over atoms, operators and parentheses (Model/Prec.lean) with the theorem parse_spelling - EVERY spelling of an expression tree (the fewest parentheses the grammar needs, or any number of redundant ones) parses back to exactly that tree and consumes the input - its corollaries parse_print and spelling_unique, and the regenerated tie levels_as_modelled / recursion_as_modelled (the six operator groups of binaryOps and the `remaining` / `remaining` recursion of parseBinaryOps, Gen.HclOps). Correspondence: generated expression / template trees over generated variable environments, each printed with minimal and with redundant parentheses and whitespace, parsed by the real hclsyntax.ParseExpression and evaluated by Value(ctx); the syntax tree the real parser built must be the written tree (precedence, associativity, parentheses-independence) and the value or error must be what `Hx.eval` defines.",
                "note": "Trusted: Lean kernel (propext/Classical.choice/Quot.sound), harness (tree printer, AST / value rendering, the split of a heredoc into the scanner's per-line literals) + driver. Numbers are integers in the model: non-integer quotients and infinities (x/0) are produced by the generator but not compared (`inexact`, also for a conditional with such a branch). The four functions of the evaluation context are the harness's own (add2, neg1, cat, pick: fixed, variadic, dynamically typed), modelled in Lean; cty's primitive conversions (string to number / bool, number / bool to string) are modelled for plain integers, other numeric spellings are not compared. Sets, unknown values, strip markers and directives inside heredocs are not modelled. The parser model (Model/Prec.lean) covers binary operators and parentheses over abstract atoms; the rest of the grammar (unary operators, traversals, conditional, templates, lexer) is decided by correspondence on every generated tree (parser's tree = written tree).",
        "technique": "Lean 4 proof (clauses of the reference semantics for all operands) + correspondence of the real parser and evaluator against the reference semantics on generated trees in two spellings",
        "gen": ["HclOps"],
        "n": {"quick": 6000, "thorough": 80000},
        "seeds_thorough": 3,
        "rule": "trees of depth 2-5 from one PRNG: number-typed (all five arithmetic operators, negation, conditionals, indexing, attribute access; operands 0-49 and boundary values up to 30 digits), boolean-typed (logic, comparison, equality of arbitrary operands, negation), templates (1-3 parts of literals and interpolations of any type) and loosely typed ones (null, tuples, objects, missing variables / attributes, ill-typed operands, conditionals mixing number / bool / string / null branches), collection expressions (full and attribute splats with traversals, over tuples of objects, tuples, objects, list- and map-typed values, scalars and null; tuple and object for-expressions with or without the key variable, filters, grouping - type-directed, 1 in 5 deliberately loose), template directives (%{ if / else }, %{ for } with one or two variables, inside quoted templates), heredocs (plain / flush, 0-4 lines with own indentation of blanks / tabs / U+00A0, blank lines, lines that start with an interpolation, nested heredocs, indented closing marker), function calls (well-typed by result kind, in for / splat bodies, and 16 deliberately loose shapes: unknown names, too few / too many arguments, ill-typed and null arguments, numeric and boolean strings, expansion of tuples, lists, scalars, objects and null, out-of-range picks) and exact arithmetic over literals that together need more than 64 bits; environment of 11 variables with random values (incl. a list-typed and a map-typed one); every tree printed twice (minimal / redundant parentheses and blanks); distinct by input text",
        "trusted_base": COMMON_TB + ["go-cty value rendering (big.Float exact integer text)"],
        "assumptions": ["non-integer and infinite numbers are not compared"],
    },
    "C19": {
        "level": "proof",
        "claim": "Lean 4 theorems over `Bd.decode`, what a body means under a schema (required / optional typed attributes; nested, labelled, single or repeated blocks): the decoded value AND validity depend on the attributes only as a map (attribute_order_irrelevant, via lookup_perm) and on the blocks only through the per-type block sequences (blocks_matter_per_type), hence are unchanged by moving blocks of different types past each other (swap_different_types), by cutting a file between two items and merging the parts (cut_and_merge, cut_and_merge_decodes_alike); a missing required or an unknown attribute is invalid in every form (missing_required_is_invalid, unknown_attribute_is_invalid). Correspondence: generated schemas (depth <= 3) and configurations are written in five forms - native, native with shuffled items / comments / odd spacing, JSON, two files merged with hcl.MergeFiles, and with runs of repeated blocks (also nested ones, with default and explicit iterator names) replaced by `dynamic` blocks expanded by dynblock.Expand - and every form is decoded by hcldec (spec built from the schema) and by gohcl (struct type built with reflect.StructOf); all forms and both decoders must agree with each other (value and error-freeness) and with `Bd.decode`; one configuration in five carries a fault (required attribute missing, unknown attribute, label missing).",
        "note": "Trusted: Lean kernel (propext/Classical.choice/Quot.sound), harness (the five writers, the two result dumps) + driver. The decoders, the JSON body, the merged body and the dynamic-block expansion are exercised, not modelled: the Lean side is the form-independent meaning. hclwrite.Format as a rewrite is covered under C20.",
        "technique": "Lean 4 proof (decoding is invariant under the rewrites, by permutation / per-type-filter lemmas) + differential correspondence of five written forms x two real decoders against the Lean meaning",
        "gen": [],
        "n": {"quick": 2500, "thorough": 40000},
        "seeds_thorough": 3,
        "rule": "from one PRNG: schemas with 0-3 attributes per level (string / number / bool / list(string), required 1/2) and 0-2 block types per level (names blk / item, reused across levels; labelled 1/3; repeated 2/3), depth <= 3; configurations with required attributes, optional ones 1/2, 0-3 blocks of a repeated type; cut point uniform over the top-level items; dynamic blocks for 2/3 of the eligible runs, iterator default or explicit; 1/5 with one fault; distinct by input text",
        "trusted_base": COMMON_TB,
        "assumptions": [],
    },
    "C20": {
        "level": "proof",
        "claim": "Lean 4 theorems over a model of hclwrite's edit operations on a body (item lists with comments classified as lead / trailing / free, as hclwrite/parser.go partitions them): after SetAttributeValue re-parsing shows that value, every other attribute keeps its value and all comments and blocks stay where they are (set_then_get, set_keeps_others, set_keeps_comments_and_blocks); RemoveAttribute removes that attribute (remove_then_absent), keeps every other attribute and every block (remove_keeps_others, remove_keeps_blocks); AppendNewBlock adds an empty last block and nothing else (addBlock_appends); an edit addressed to a body that does not exist is a no-op. Correspondence: generated source files (numbers, strings, templates, heredocs incl. <<- and ones starting with ${, lists, objects, traversals, function calls, for-expressions, template directives; nested and labelled blocks; #, // and /* */ comments; blank lines; odd spacing and tabs; files without a final newline) are loaded into the REAL hclwrite; the unformatted token stream must reproduce the input (a tab between tokens as a blank), File.Bytes() must equal Format(src), Format must be idempotent, change only blanks / indentation (token text compared) and keep the parsed tree and values; generated sequences of SetAttributeValue / RemoveAttribute / AppendNewBlock / RemoveBlock on bodies addressed by block-index paths are applied by hclwrite and by the Lean model, and the re-parsed output (attributes, blocks and comments with their roles, in order) must be the model's.",
        "note": "Trusted: Lean kernel (propext/Classical.choice/Quot.sound), harness (source generator, event extraction from hclsyntax's tree and token stream) + driver. The formatter and the token partitioning are exercised, not modelled: the Lean model starts from the events of the parsed input. SetAttributeTraversal / SetAttributeRaw and the gohcl encoder are not driven.",
        "technique": "Lean 4 proof (edit operations change what they say and nothing else, by induction over item lists) + correspondence against the real hclwrite (token identity, formatter properties, edit sequences re-parsed)",
        "gen": [],
        "n": {"quick": 3000, "thorough": 40000},
        "seeds_thorough": 3,
        "rule": "from one PRNG: bodies of 1-5 items at the top, 0-4 nested (depth <= 2); 2/3 attributes with one of 16 value shapes, 0-2 lead comments, optional trailing comment, optional blank line in front; blocks with 0-2 labels; random spacing / tabs / indentation; 1 in 8 files without a final newline; 0-4 edit operations on random bodies (set existing / fresh names with 9 value shapes, remove, append block with 0-2 labels, remove the i-th block); distinct by input text",
        "trusted_base": COMMON_TB,
        "assumptions": [],
    },
}
