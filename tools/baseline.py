#!/usr/bin/env python3
"""tools/baseline.py [repo] — run the pinned test suite of /root/.vp/BASELINE.json (guard off) and report
every stable_pass test that does not pass now."""
import json, os, subprocess, sys
repo = sys.argv[1] if len(sys.argv) > 1 else "/repo"
b = json.load(open("/root/.vp/BASELINE.json"))
env = dict(os.environ, GOFLAGS="-mod=mod", GOPROXY="off", GOSUMDB="off", GOTOOLCHAIN="local")
r = subprocess.run(["go", "test", "-json", "-vet=off", "-count=1", "-timeout", "25m", "./..."],
                   cwd=os.path.join(repo, "teamserver"), env=env, capture_output=True, text=True)
res = {}
for l in r.stdout.splitlines():
    try:
        e = json.loads(l)
    except ValueError:
        continue
    if e.get("Test") and e.get("Action") in ("pass", "fail", "skip"):
        res[e["Package"] + "::" + e["Test"]] = e["Action"]
bad = [t for t in b["stable_pass"] if res.get(t) != "pass"]
print(f"baseline: {len(b['stable_pass'])} pinned, {len(b['stable_pass']) - len(bad)} pass, {len(bad)} not passing")
for t in bad[:20]:
    print("  NOT PASSING:", t, res.get(t))
sys.exit(1 if bad else 0)
