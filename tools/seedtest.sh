#!/bin/sh
# tools/seedtest.sh <patch.diff> <property> [tier]  — apply a seeded change to /repo, run the check, undo it.
P="$(readlink -f "$1")"; ID="$2"; T="${3:-quick}"
cd /repo || exit 2
if ! git apply --check "$P" 2>/dev/null; then echo "patch does not apply"; exit 2; fi
git apply "$P"
cd /verif && ./check "$ID" --tier "$T" 2>&1 | tail -6
cd /repo && git checkout -- . && git clean -fdq
