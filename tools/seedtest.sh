#!/bin/sh
# tools/seedtest.sh <patch.diff> <property> [tier]  — apply a seeded change to /repo, run the check, undo it.
P="$(readlink -f "$1")"; ID="$2"; T="${3:-quick}"
cd /repo || exit 2
if ! git apply --check "$P" 2>/dev/null; then echo "patch does not apply"; exit 2; fi
git apply "$P"
cp /verif/evidence/$ID.json /tmp/.ev_$ID.json 2>/dev/null
cd /verif && ./check "$ID" --tier "$T" 2>&1 | tail -6
cd /repo && git checkout -- . && git clean -fdq
# the evidence of a run against a seeded tree is not the evidence of the current tree
[ -f /tmp/.ev_$ID.json ] && mv /tmp/.ev_$ID.json /verif/evidence/$ID.json
