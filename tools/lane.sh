#!/bin/sh
# tools/lane.sh <lane> <patch.diff|-> <property> [tier] [seed]
# Runs one check against a scratch copy: /tmp/lanes/<lane>/{verif,repo}.  The repo copy is a detached
# worktree of /repo's HEAD with the patch applied ("-" = no patch), the verif copy is this tree without
# work/.  Nothing in /repo's working tree or in /verif is touched; the lane is removed afterwards.
# Output: the check's last lines + the VIOLATION replays copied to /verif/work/lanes/<lane>/.
L="$1"; P="$2"; ID="$3"; T="${4:-quick}"; SEED="${5:-1}"
[ "$P" != "-" ] && P="$(readlink -f "$P")"
HERE="$(cd "$(dirname "$0")/.." && pwd)"
D=/tmp/lanes/$L
export GOFLAGS=-mod=mod GOPROXY=off GOSUMDB=off GOTOOLCHAIN=local
rm -rf "$D"; git -C /repo worktree prune; mkdir -p "$D"
git -C /repo worktree add --detach "$D/repo" HEAD -q || exit 2
if [ "$P" != "-" ]; then
  if ! git -C "$D/repo" apply "$P" 2>/dev/null; then echo "LANE $L: patch does not apply"; git -C /repo worktree remove --force "$D/repo"; rm -rf "$D"; exit 2; fi
fi
rsync -a --exclude work --exclude .git "$HERE/" "$D/verif/"
sed -i "s#=> /repo/teamserver#=> $D/repo/teamserver#" "$D/verif/harness/go.mod"
OUT="$HERE/work/lanes/$L"; rm -rf "$OUT"; mkdir -p "$OUT"
( cd "$D/verif" && VERIF_REPO="$D/repo" ./check "$ID" --tier "$T" --seed "$SEED" > "$OUT/check.log" 2>&1 ; echo "exit=$?" >> "$OUT/check.log" )
grep -E "^VIOLATION|^KNOWN-FINDING|^exit=" "$OUT/check.log" | sed "s#^#LANE $L: #"
for f in $(grep -E "^VIOLATION" "$OUT/check.log" | sed -n 's/.*replay=\([^ ]*\).*/\1/p'); do cp "$f" "$OUT/" 2>/dev/null; done
cp "$D/verif/evidence/$ID.json" "$OUT/evidence.json" 2>/dev/null
git -C /repo worktree remove --force "$D/repo"; rm -rf "$D"
