#!/bin/sh
# tools/lanes_seeds.sh <parallel> <seed-dir-names…>: run each seed's property check in its own lane; summary in work/lanes_seeds.log
cd "$(dirname "$0")/.."
P="$1"; shift
for s in "$@"; do echo "$s"; done | xargs -P "$P" -I{} sh -c 'id=$(echo {} | cut -c1-3); ./tools/lane.sh {} seeded/{}/patch.diff $id quick 2>&1 | grep "^LANE" | tr "\n" ";" | sed "s/^/{}: /"; echo' >> work/lanes_seeds.log
