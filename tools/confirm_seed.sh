#!/bin/sh
# tools/confirm_seed.sh <seed-dir with patch.diff + demo_test.go> <pkg dir relative to teamserver> <go test -run regex> [yaotl]
# Confirms in a scratch worktree: patch applies, builds, demo FAILS with it and PASSES without it.
# SEEDTAGS="-tags verif" in the environment builds the demo under the hook tag.
# With a 4th arg "yaotl" also runs the pinned yaotl test suite with the patch applied.
D="$(readlink -f "$1")"; PKG="$2"; RUN="$3"; Y="$4"
export GOFLAGS=-mod=mod GOPROXY=off GOSUMDB=off GOTOOLCHAIN=local
WT=$(mktemp -d /tmp/confirm.XXXXXX)
git -C /repo worktree add -q --detach "$WT" HEAD || exit 2
cd "$WT" || exit 2
cp "$D"/demo_test.go "teamserver/$PKG/zz_demo_test.go"
(cd teamserver && go test $SEEDTAGS -vet=off -count=1 -run "$RUN" "./$PKG/" >"$WT/without.txt" 2>&1); W0=$?
git apply "$D/patch.diff" || { echo "APPLY-FAILED"; }
(cd teamserver && go build ./... >"$WT/build.txt" 2>&1); B=$?
(cd teamserver && go test $SEEDTAGS -vet=off -count=1 -run "$RUN" "./$PKG/" >"$WT/with.txt" 2>&1); W1=$?
YR="-"
if [ "$Y" = "yaotl" ]; then (cd teamserver && go test -vet=off -count=1 ./pkg/profile/yaotl/... >"$WT/yaotl.txt" 2>&1); YR=$?; fi
echo "CONFIRM $(basename $(dirname $D))/$(basename $D): build=$B demo_without=$W0 (want 0) demo_with=$W1 (want !=0) yaotl=$YR"
tail -3 "$WT/with.txt" | cut -c1-200
cd / && git -C /repo worktree remove --force "$WT"
