#!/bin/sh
# tools/seed_baseline.sh <seed dir>: the pinned test suite with the seeded change applied (scratch worktree)
D="$(readlink -f "$1")"; WT=$(mktemp -d /tmp/sb.XXXXXX)
git -C /repo worktree add -q --detach "$WT" HEAD || exit 2
git -C "$WT" apply "$D/patch.diff" || echo "APPLY-FAILED"
python3 "$(dirname "$0")/baseline.py" "$WT" 2>&1 | grep -v conda | sed "s#^#$(basename $D): #"
git -C /repo worktree remove --force "$WT"
