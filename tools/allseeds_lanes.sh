#!/bin/sh
# tools/allseeds_lanes.sh [parallel] [glob] — every seeded change (or those matching the glob, e.g. 'C*-m[78]';
# their lines in the log are replaced, the others kept) in its own lane (scratch copies of /repo and /verif),
# the property's quick check, one line per seed in work/allseeds.log (format of tools/allseeds.sh).
cd "$(dirname "$0")/.."
P="${1:-4}"; G="${2:-}"
if [ -z "$G" ]; then : > work/allseeds.log; G='C*-m*'; else
  for d in seeded/$G; do sed -i "/^$(basename $d) /d" work/allseeds.log; done
fi
ls -d seeded/$G | xargs -n1 basename | xargs -P "$P" -I{} sh -c '
  id={}; prop=$(echo $id | cut -c1-3)
  ./tools/lane.sh $id seeded/$id/patch.diff $prop quick >/dev/null 2>&1
  log=work/lanes/$id/check.log
  if [ ! -f "$log" ]; then echo "$id APPLY-FAILED" >> work/allseeds.log; exit 0; fi
  v=$(grep "^VIOLATION" $log | grep -v no-failing-input-found | sed "s/.*replay=[^ ]*violation_//; s/\.ops.*//" | tr "\n" " ")
  nf=$(grep -c "no-failing-input-found" $log)
  b=$(grep "broken:" $log | cut -c1-120 | tr "\n" " ")
  echo "$id violations=[$v] $b nofailing=$nf" >> work/allseeds.log'
sort -o work/allseeds.log work/allseeds.log
