#!/usr/bin/env python3
"""tools/importseed.py <property> <source dir with patch.diff, *_test.go, notes.md> <seed name>
Copies a sub-agent's seeded change into /verif/seeded/<seed name>/, confirms it in a scratch worktree
(demo passes without / fails with the patch, tree builds) and writes meta.json."""
import glob, json, os, re, shutil, subprocess, sys
pid, src, name = sys.argv[1], sys.argv[2], sys.argv[3]
V = os.path.dirname(os.path.dirname(os.path.abspath(__file__)))
dst = os.path.join(V, "seeded", name)
os.makedirs(dst, exist_ok=True)
shutil.copy(os.path.join(src, "patch.diff"), dst)
notes = open(os.path.join(src, "notes.md"), errors="replace").read()
shutil.copy(os.path.join(src, "notes.md"), dst)
demos = sorted(glob.glob(os.path.join(src, "*_test.go")))
if not demos:
    print("no demo test file in", src); sys.exit(2)
shutil.copy(demos[0], os.path.join(dst, "demo_test.go"))
demo = open(demos[0], errors="replace").read()
m = re.search(r"cop(?:y|ied)[^\n]{0,80}?teamserver/((?:pkg|cmd)/[\w/.-]+?)/?[`\s),.]", notes) or \
    re.search(r"teamserver/((?:pkg|cmd)/[\w/.-]+?)/[\w.]*_test\.go", notes)
if m:
    pkg = m.group(1).rstrip("/")
    if pkg.endswith("_test") or "." in os.path.basename(pkg):      # …/demo_test.go was named, not a directory
        pkg = os.path.dirname(pkg)
else:
    files = re.findall(r"^\+\+\+ b/teamserver/((?:pkg|cmd)/[\w/.-]+)/[^/\n]+$", open(os.path.join(src, "patch.diff")).read(), re.M)
    pkg = files[0]
m = re.search(r"-run[ =]+'?\"?([\w|^$.*()]+)", notes)
run = m.group(1) if m else "Test"
tags = "-tags verif" if ("-tags verif" in notes or "go:build verif" in demo) else ""
yaotl = "yaotl" if "pkg/profile/yaotl" in open(os.path.join(src, "patch.diff")).read() else ""
env = dict(os.environ, SEEDTAGS=tags)
r = subprocess.run([os.path.join(V, "tools", "confirm_seed.sh"), dst, pkg, run] + ([yaotl] if yaotl else []),
                   capture_output=True, text=True, env=env)
line = next((l for l in r.stdout.splitlines() if l.startswith("CONFIRM")), r.stdout[-300:] + r.stderr[-300:])
title = re.sub(r"\s+", " ", notes.strip())[:600]
meta = {"property": pid, "round": int(os.environ.get("SEEDROUND", "2")), "needs_to_manifest": title,
        "demo": {"file": "demo_test.go", "copy_into": "teamserver/" + pkg,
                 "run": f"go test {tags} -vet=off -count=1 -run '{run}' ./{pkg}/".replace("  ", " ")},
        "confirmed": {"how": f"SEEDTAGS='{tags}' tools/confirm_seed.sh {dst} {pkg} '{run}' {yaotl}".strip(), "result": line}}
json.dump(meta, open(os.path.join(dst, "meta.json"), "w"), indent=1)
print(line)
