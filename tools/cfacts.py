#!/usr/bin/env python3
"""cfacts: regex fact extractors over payloads/Demon C sources -> Gen/*.lean (grown per property)."""
import sys
sys.exit(0)
