package main

// LockPaths: the path-sensitive companion of LockFacts.  For every function (and function literal) of the listed
// packages that touches a mutex: the set of distinct lock / unlock / defer-unlock event sequences along the
// control-flow paths of its body, each ending in `ret` (an explicit return or falling off the end).
// Branches (if / else, switch and select cases, a loop body taken zero times or once, break / continue) are followed
// separately, so a mutex left held on one early return is seen even when a later branch releases or re-locks it.
// Paths that end in panic(...) / os.Exit / log.Fatal* are dropped.  Prefixes are de-duplicated by their events, which
// keeps the sets small; more than 4096 distinct prefixes in one function is reported as an extraction failure.

import (
	"fmt"
	"go/ast"
	"go/parser"
	"go/token"
	"path/filepath"
	"sort"
	"strings"
)

func init() { extractors["LockPaths"] = genLockPaths }

type lpPath struct {
	evs  []string
	mode int // 0 running, 1 break, 2 continue
}

type lpSet struct {
	live []lpPath
	done [][]string
}

func lpKey(p lpPath) string { return fmt.Sprint(p.mode) + "|" + strings.Join(p.evs, ",") }

func lpDedup(ps []lpPath) []lpPath {
	seen := map[string]bool{}
	var out []lpPath
	for _, p := range ps {
		k := lpKey(p)
		if !seen[k] {
			seen[k] = true
			out = append(out, p)
		}
	}
	return out
}

type lpWalker struct {
	fset  *token.FileSet
	name  string
	lit   int
	out   *[]lpFn
	done  map[string][]string
	abort error
}

type lpFn struct {
	name  string
	paths [][]string
}

// events of lock calls inside an expression / simple statement, in source order; function literals are functions of their own
func (w *lpWalker) exprEvents(n ast.Node) []string {
	if n == nil {
		return nil
	}
	type pe struct {
		pos token.Pos
		s   string
	}
	var o []pe
	ast.Inspect(n, func(x ast.Node) bool {
		switch c := x.(type) {
		case *ast.FuncLit:
			w.lit++
			lpFunction(w.fset, fmt.Sprintf("%s$lit%d", w.name, w.lit), c.Body, w.out)
			return false
		case *ast.CallExpr:
			if k, mu, ok := lockCall(w.fset, c); ok {
				o = append(o, pe{c.Pos(), k + ":" + mu})
			}
		}
		return true
	})
	sort.SliceStable(o, func(i, j int) bool { return o[i].pos < o[j].pos })
	var out []string
	for _, e := range o {
		out = append(out, e.s)
	}
	return out
}

func isNoReturnCall(s ast.Stmt) bool {
	es, ok := s.(*ast.ExprStmt)
	if !ok {
		return false
	}
	c, ok := es.X.(*ast.CallExpr)
	if !ok {
		return false
	}
	switch f := c.Fun.(type) {
	case *ast.Ident:
		return f.Name == "panic"
	case *ast.SelectorExpr:
		if x, ok := f.X.(*ast.Ident); ok {
			return (x.Name == "os" && f.Sel.Name == "Exit") || (x.Name == "log" && strings.HasPrefix(f.Sel.Name, "Fatal"))
		}
	}
	return false
}

func appendAll(ps []lpPath, evs []string) []lpPath {
	if len(evs) == 0 {
		return ps
	}
	out := make([]lpPath, len(ps))
	for i, p := range ps {
		out[i] = lpPath{append(append([]string{}, p.evs...), evs...), p.mode}
	}
	return out
}

// stmts runs the running paths of `in` through a statement list; paths in break / continue mode pass through untouched
func (w *lpWalker) stmts(list []ast.Stmt, in []lpPath, done *[][]string) []lpPath {
	cur := in
	for _, s := range list {
		cur = w.stmt(s, cur, done)
		if len(cur) > 4096 {
			w.abort = fmt.Errorf("%s: more than 4096 distinct lock-event prefixes", w.name)
			return nil
		}
	}
	return cur
}

func split(ps []lpPath) (run, other []lpPath) {
	for _, p := range ps {
		if p.mode == 0 {
			run = append(run, p)
		} else {
			other = append(other, p)
		}
	}
	return
}

func (w *lpWalker) stmt(s ast.Stmt, in []lpPath, done *[][]string) []lpPath {
	run, other := split(in)
	if len(run) == 0 || w.abort != nil {
		return in
	}
	join := func(sets ...[]lpPath) []lpPath {
		var all []lpPath
		all = append(all, other...)
		for _, x := range sets {
			all = append(all, x...)
		}
		return lpDedup(all)
	}
	switch x := s.(type) {
	case *ast.BlockStmt:
		return join(w.stmts(x.List, run, done))
	case *ast.LabeledStmt:
		return join(w.stmt(x.Stmt, run, done))
	case *ast.ReturnStmt:
		var evs []string
		for _, r := range x.Results {
			evs = append(evs, w.exprEvents(r)...)
		}
		for _, p := range appendAll(run, append(evs, "ret")) {
			*done = append(*done, p.evs)
		}
		return join()
	case *ast.DeferStmt:
		if k, mu, ok := lockCall(w.fset, x.Call); ok && k == "unlock" {
			return join(appendAll(run, []string{"deferUnlock:" + mu}))
		}
		if fl, ok := x.Call.Fun.(*ast.FuncLit); ok {
			// defer func() { …; mu.Unlock() }(): the unlocks inside run at every exit
			var evs []string
			ast.Inspect(fl.Body, func(n ast.Node) bool {
				if c, ok := n.(*ast.CallExpr); ok {
					if k, mu, ok := lockCall(w.fset, c); ok && k == "unlock" {
						evs = append(evs, "deferUnlock:"+mu)
					}
				}
				return true
			})
			return join(appendAll(run, evs))
		}
		return join(appendAll(run, w.exprEvents(x.Call)))
	case *ast.GoStmt:
		w.exprEvents(x.Call) // literals inside become functions of their own
		return join(run)
	case *ast.BranchStmt:
		mode := 0
		switch x.Tok {
		case token.BREAK:
			mode = 1
		case token.CONTINUE:
			mode = 2
		default: // goto / fallthrough: not followed
			return join(run)
		}
		out := make([]lpPath, len(run))
		for i, p := range run {
			out[i] = lpPath{p.evs, mode}
		}
		return join(out)
	case *ast.IfStmt:
		if x.Init != nil {
			run = w.stmt(x.Init, run, done)
		}
		run = appendAll(run, w.exprEvents(x.Cond))
		th := w.stmts(x.Body.List, run, done)
		el := run
		if x.Else != nil {
			el = w.stmt(x.Else, run, done)
		}
		return join(th, el)
	case *ast.ForStmt, *ast.RangeStmt:
		var body *ast.BlockStmt
		infinite := false
		switch f := x.(type) {
		case *ast.ForStmt:
			if f.Init != nil {
				run = w.stmt(f.Init, run, done)
			}
			run = appendAll(run, w.exprEvents(f.Cond))
			body = f.Body
			infinite = f.Cond == nil
		case *ast.RangeStmt:
			run = appendAll(run, w.exprEvents(f.X))
			body = f.Body
		}
		once := w.stmts(body.List, run, done)
		var exit []lpPath
		if !infinite {
			exit = append(exit, run...) // zero iterations
		}
		for _, p := range once {
			if infinite && p.mode != 1 {
				continue // for { … } is left through break or return only
			}
			exit = append(exit, lpPath{p.evs, 0}) // break, continue and the end of the body all lead behind the loop
		}
		return join(exit)
	case *ast.SwitchStmt, *ast.TypeSwitchStmt, *ast.SelectStmt:
		var body *ast.BlockStmt
		switch f := x.(type) {
		case *ast.SwitchStmt:
			if f.Init != nil {
				run = w.stmt(f.Init, run, done)
			}
			run = appendAll(run, w.exprEvents(f.Tag))
			body = f.Body
		case *ast.TypeSwitchStmt:
			if f.Init != nil {
				run = w.stmt(f.Init, run, done)
			}
			run = appendAll(run, w.exprEvents(f.Assign))
			body = f.Body
		case *ast.SelectStmt:
			body = f.Body
		}
		var exit []lpPath
		hasDefault := false
		for _, c := range body.List {
			var list []ast.Stmt
			start := run
			switch cc := c.(type) {
			case *ast.CaseClause:
				if cc.List == nil {
					hasDefault = true
				}
				for _, e := range cc.List {
					start = appendAll(start, w.exprEvents(e))
				}
				list = cc.Body
			case *ast.CommClause:
				if cc.Comm == nil {
					hasDefault = true
				} else {
					start = w.stmt(cc.Comm, start, done)
				}
				list = cc.Body
			}
			for _, p := range w.stmts(list, start, done) {
				if p.mode == 1 {
					p.mode = 0 // break leaves the switch
				}
				exit = append(exit, p)
			}
		}
		if _, isSel := x.(*ast.SelectStmt); !hasDefault && !isSel {
			exit = append(exit, run...)
		}
		return join(exit)
	default:
		if isNoReturnCall(s) {
			return join() // the path ends without returning
		}
		return join(appendAll(run, w.exprEvents(s)))
	}
}

func lpFunction(fset *token.FileSet, name string, body *ast.BlockStmt, out *[]lpFn) error {
	w := &lpWalker{fset: fset, name: name, out: out}
	var done [][]string
	end := w.stmts(body.List, []lpPath{{}}, &done)
	if w.abort != nil {
		return w.abort
	}
	for _, p := range end {
		done = append(done, append(append([]string{}, p.evs...), "ret")) // falling off the end
	}
	seen := map[string]bool{}
	var paths [][]string
	has := false
	for _, p := range done {
		k := strings.Join(p, ",")
		if seen[k] {
			continue
		}
		seen[k] = true
		paths = append(paths, p)
		if len(p) > 1 {
			has = true
		}
	}
	if has {
		sort.Slice(paths, func(i, j int) bool { return strings.Join(paths[i], ",") < strings.Join(paths[j], ",") })
		*out = append(*out, lpFn{name, paths})
	}
	return nil
}

func genLockPaths(repo string) (string, error) {
	dirs := []string{"teamserver/pkg/agent", "teamserver/pkg/handlers", "teamserver/pkg/socks", "teamserver/cmd/server", "teamserver/pkg/service"}
	var fns []lpFn
	for _, d := range dirs {
		files, _ := filepath.Glob(filepath.Join(repo, d, "*.go"))
		sort.Strings(files)
		if len(files) == 0 {
			return "", fmt.Errorf("no Go files in %s", d)
		}
		for _, f := range files {
			if strings.HasSuffix(f, "_test.go") {
				continue
			}
			fset := token.NewFileSet()
			af, err := parser.ParseFile(fset, f, nil, 0)
			if err != nil {
				return "", err
			}
			for _, decl := range af.Decls {
				fd, ok := decl.(*ast.FuncDecl)
				if !ok || fd.Body == nil {
					continue
				}
				name := fd.Name.Name
				if fd.Recv != nil && len(fd.Recv.List) > 0 {
					name = strings.TrimPrefix(exprStr(fset, fd.Recv.List[0].Type), "*") + "." + name
				}
				if err := lpFunction(fset, filepath.Base(d)+"/"+name, fd.Body, &fns); err != nil {
					return "", err
				}
			}
		}
	}
	if len(fns) == 0 {
		return "", fmt.Errorf("no function using a mutex found")
	}
	var b strings.Builder
	b.WriteString("import HavocVerif.Gen.LockFacts\n-- GENERATED by tools/gofacts (lockpaths.go) from /repo on every run. Do not edit.\n")
	b.WriteString("namespace Havoc.Gen.LockPaths\nopen Havoc.Gen.LockFacts\n\n")
	b.WriteString("/-- package, function, the distinct lock-event sequences along its control-flow paths -/\ndef funcs : List (String × String × List (List Ev)) := [\n")
	for i, fn := range fns {
		var ps []string
		for _, p := range fn.paths {
			var evs []string
			for _, e := range p {
				if e == "ret" {
					evs = append(evs, ".ret")
				} else {
					kv := strings.SplitN(e, ":", 2)
					evs = append(evs, fmt.Sprintf(".%s %q", kv[0], kv[1]))
				}
			}
			ps = append(ps, "["+strings.Join(evs, ", ")+"]")
		}
		sep := ","
		if i == len(fns)-1 {
			sep = ""
		}
		pk := strings.SplitN(fn.name, "/", 2)
		fmt.Fprintf(&b, "  (%q, %q, [%s])%s\n", pk[0], pk[1], strings.Join(ps, ",\n     "), sep)
	}
	b.WriteString("]\n\nend Havoc.Gen.LockPaths\n")
	return b.String(), nil
}
