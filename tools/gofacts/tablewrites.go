package main

// TableWrites: every assignment to one of the shared slice tables (JobQueue, Tasks, Downloads, PortFwds, SocksCli,
// SocksSvr, EventsList, Endpoints, Listeners) in pkg/agent, pkg/handlers, cmd/server, pkg/service, classified by shape.
// The Lean models treat these tables as immutable list values; that is faithful only while no write reuses a backing
// array that somebody else may still be reading.  Shapes:
//   nil            T = nil
//   empty          T = []X{} / make([]X, 0)
//   push           T = append(T, x…)                       (no spread of T itself)
//   delete-at      T = append(T[:i], T[i+1:]...)
//   split          X, T = T[:n], T[n:]
//   fresh-local    T = v, where v is a local declared without a value (or as an empty literal / make) and only ever
//                  assigned `v = append(v, x…)`
//   alias-local    T = v, where v was made from a re-slice of a table (v := T[:0], v := T[:n] …)
//   other:<text>   anything else
// Also: every slice expression `X[:0]` in those packages (the buffer-reuse idiom), with the function it occurs in.

import (
	"fmt"
	"go/ast"
	"go/parser"
	"go/token"
	"os"
	"path/filepath"
	"sort"
	"strings"
)

func init() { extractors["TableWrites"] = genTableWrites }

var sharedTables = map[string]bool{"JobQueue": true, "Tasks": true, "Downloads": true, "PortFwds": true, "SocksCli": true,
	"SocksSvr": true, "EventsList": true, "Endpoints": true, "Listeners": true}

func tableOf(fset *token.FileSet, e ast.Expr) (string, string, bool) {
	if s, ok := e.(*ast.SelectorExpr); ok && sharedTables[s.Sel.Name] {
		return nodeText(fset, e), s.Sel.Name, true
	}
	return "", "", false
}

func isEmptyMake(fset *token.FileSet, e ast.Expr) bool {
	switch x := e.(type) {
	case *ast.CompositeLit:
		return len(x.Elts) == 0
	case *ast.CallExpr:
		if callName(x) == "make" && len(x.Args) >= 2 {
			return nodeText(fset, x.Args[1]) == "0"
		}
	}
	return false
}

// how a local slice variable is built inside fn
func localShape(fset *token.FileSet, fn *ast.BlockStmt, name string) string {
	shape := "fresh-local"
	declared := false
	ast.Inspect(fn, func(n ast.Node) bool {
		switch x := n.(type) {
		case *ast.ValueSpec:
			for i, id := range x.Names {
				if id.Name == name {
					declared = true
					if len(x.Values) > i && !isEmptyMake(fset, x.Values[i]) {
						shape = "alias-local"
					}
				}
			}
		case *ast.AssignStmt:
			for i, l := range x.Lhs {
				id, ok := l.(*ast.Ident)
				if !ok || id.Name != name || len(x.Rhs) <= i {
					continue
				}
				r := x.Rhs[i]
				if x.Tok == token.DEFINE {
					declared = true
					if !isEmptyMake(fset, r) {
						shape = "alias-local"
					}
					continue
				}
				c, ok := r.(*ast.CallExpr)
				if !(ok && callName(c) == "append" && len(c.Args) >= 1 && nodeText(fset, c.Args[0]) == name && !c.Ellipsis.IsValid()) {
					// append(v, xs...) of another slice is fine too as long as the first argument is v itself
					if ok && callName(c) == "append" && len(c.Args) >= 1 && nodeText(fset, c.Args[0]) == name {
						continue
					}
					shape = "alias-local"
				}
			}
		}
		return true
	})
	if !declared {
		return "alias-local" // a parameter or something we do not see being made
	}
	return shape
}

func genTableWrites(repo string) (string, error) {
	dirs := []string{"teamserver/pkg/agent", "teamserver/pkg/handlers", "teamserver/cmd/server", "teamserver/pkg/service"}
	type row struct{ pkg, fn, table, shape string }
	var rows []row
	var reslices [][2]string
	var detached [][2]string
	detachedFns := map[string]bool{}
	for _, d := range dirs {
		files, _ := filepath.Glob(filepath.Join(repo, d, "*.go"))
		sort.Strings(files)
		if len(files) == 0 {
			return "", fmt.Errorf("no Go files in %s", d)
		}
		for _, f := range files {
			if strings.HasSuffix(f, "_test.go") || strings.HasSuffix(f, "_verif.go") {
				continue
			}
			fset := token.NewFileSet()
			af, err := parser.ParseFile(fset, f, nil, 0)
			if err != nil {
				return "", err
			}
			for _, decl := range af.Decls {
				fd, ok := decl.(*ast.FuncDecl)
				if !ok || fd.Body == nil {
					continue
				}
				name := fd.Name.Name
				if r := recvName(fd); r != "" {
					name = r + "." + name
				}
				pkg := filepath.Base(d)
				// append(T[:i], …) moves elements inside T's backing array whether or not the result is stored in T
				assigned := map[*ast.CallExpr]bool{}
				ast.Inspect(fd.Body, func(n ast.Node) bool {
					if as, ok := n.(*ast.AssignStmt); ok && len(as.Lhs) == len(as.Rhs) {
						for i, l := range as.Lhs {
							if full, _, ok := tableOf(fset, l); ok {
								if c, ok := as.Rhs[i].(*ast.CallExpr); ok && callName(c) == "append" && len(c.Args) > 0 {
									if se, ok := c.Args[0].(*ast.SliceExpr); ok && nodeText(fset, se.X) == full {
										assigned[c] = true
									}
								}
							}
						}
					}
					return true
				})
				ast.Inspect(fd.Body, func(n ast.Node) bool {
					if c, ok := n.(*ast.CallExpr); ok && callName(c) == "append" && len(c.Args) > 0 && !assigned[c] {
						if se, ok := c.Args[0].(*ast.SliceExpr); ok {
							if _, _, ok := tableOf(fset, se.X); ok {
								detached = append(detached, [2]string{pkg + "/" + name, nodeText(fset, c)})
								detachedFns[fd.Name.Name] = true
							}
						}
					}
					return true
				})
				ast.Inspect(fd.Body, func(n ast.Node) bool {
					switch x := n.(type) {
					case *ast.SliceExpr:
						if x.Low == nil && x.High != nil && nodeText(fset, x.High) == "0" {
							reslices = append(reslices, [2]string{pkg + "/" + name, nodeText(fset, x)})
						}
					case *ast.AssignStmt:
						for i, l := range x.Lhs {
							full, tab, ok := tableOf(fset, l)
							if !ok {
								continue
							}
							shape := "other:" + nodeText(fset, x)
							if len(x.Rhs) == len(x.Lhs) {
								r := x.Rhs[i]
								switch rr := r.(type) {
								case *ast.Ident:
									if rr.Name == "nil" {
										shape = "nil"
									} else {
										shape = localShape(fset, fd.Body, rr.Name)
									}
								case *ast.CompositeLit:
									if len(rr.Elts) == 0 {
										shape = "empty"
									}
								case *ast.SliceExpr:
									// X, T = T[:n], T[n:]
									if len(x.Lhs) == 2 && i == 1 && nodeText(fset, rr.X) == full && rr.High == nil && rr.Low != nil {
										if o, ok := x.Rhs[0].(*ast.SliceExpr); ok && nodeText(fset, o.X) == full && o.Low == nil && o.High != nil &&
											nodeText(fset, o.High) == nodeText(fset, rr.Low) {
											shape = "split"
										}
									}
								case *ast.CallExpr:
									if isEmptyMake(fset, rr) {
										shape = "empty"
									} else if callName(rr) == "append" && len(rr.Args) >= 2 {
										a0 := nodeText(fset, rr.Args[0])
										if a0 == full && !rr.Ellipsis.IsValid() {
											shape = "push"
										} else if s0, ok := rr.Args[0].(*ast.SliceExpr); ok && rr.Ellipsis.IsValid() && len(rr.Args) == 2 &&
											nodeText(fset, s0.X) == full && s0.Low == nil && s0.High != nil {
											if s1, ok := rr.Args[1].(*ast.SliceExpr); ok && nodeText(fset, s1.X) == full && s1.High == nil && s1.Low != nil {
												i0 := nodeText(fset, s0.High)
												if lo := strings.ReplaceAll(nodeText(fset, s1.Low), " ", ""); lo == strings.ReplaceAll(i0, " ", "")+"+1" {
													shape = "delete-at"
												}
											}
										}
									}
								}
							}
							rows = append(rows, row{pkg, name, tab, shape})
						}
					}
					return true
				})
			}
		}
	}
	if len(rows) == 0 {
		return "", fmt.Errorf("no write to a shared table found")
	}
	var b strings.Builder
	b.WriteString("-- GENERATED by tools/gofacts (tablewrites.go) from /repo on every run. Do not edit.\nnamespace Havoc.Gen.TableWrites\n\n")
	b.WriteString("/-- package, function, table, shape of every assignment to a shared slice table -/\ndef writes : List (String × String × String × String) := [\n")
	for i, r := range rows {
		sep := ","
		if i == len(rows)-1 {
			sep = ""
		}
		fmt.Fprintf(&b, "  (%q, %q, %q, %q)%s\n", r.pkg, r.fn, r.table, r.shape, sep)
	}
	b.WriteString("]\n\n")
	fmt.Fprintf(&b, "/-- every `append(T[:i], …)` on a shared table whose result is not stored back into that table: it still moves\n    elements inside the table's backing array -/\ndef detachedAppends : List (String × String) := %s\n\n", leanPairList(detached))
	// who calls the functions that contain one (selector or plain calls by name, anywhere under teamserver/cmd and teamserver/pkg)
	var callers [][2]string
	if len(detachedFns) > 0 {
		for _, root := range []string{"teamserver/cmd", "teamserver/pkg"} {
			filepath.Walk(filepath.Join(repo, root), func(path string, info os.FileInfo, err error) error {
				if err != nil || info.IsDir() || !strings.HasSuffix(path, ".go") || strings.HasSuffix(path, "_test.go") || strings.Contains(path, "/yaotl/") {
					return nil
				}
				fs2 := token.NewFileSet()
				af, err := parser.ParseFile(fs2, path, nil, 0)
				if err != nil {
					return nil
				}
				ast.Inspect(af, func(n ast.Node) bool {
					if c, ok := n.(*ast.CallExpr); ok && detachedFns[callName(c)] {
						rel, _ := filepath.Rel(repo, path)
						callers = append(callers, [2]string{callName(c), rel})
					}
					return true
				})
				return nil
			})
		}
	}
	fmt.Fprintf(&b, "/-- calls of the functions that contain a detached append: (function, file) -/\ndef detachedCallers : List (String × String) := %s\n\n", leanPairList(callers))
	fmt.Fprintf(&b, "/-- every `X[:0]` in those packages -/\ndef reslicesToZero : List (String × String) := %s\n\nend Havoc.Gen.TableWrites\n", leanPairList(reslices))
	return b.String(), nil
}
